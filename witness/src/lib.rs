//! Compile-fail witnesses. Every `compile_fail` block has a compiling twin that
//! differs only in the offending expression, so a witness whose paths are
//! merely wrong cannot pass.

/// C06-R4: the commit tree of an event log cannot be mutated through the
/// public API (`EventLog::tree` hands out `&CommitTree`).
///
/// ```compile_fail,E0596
/// use sos_core::events::EventLog;
/// fn poke<L: EventLog<sos_core::events::WriteEvent>>(log: &L) {
///     log.tree().commit();   // `commit` takes &mut self
/// }
/// ```
///
/// twin (reading is fine):
/// ```
/// use sos_core::events::EventLog;
/// fn peek<L: EventLog<sos_core::events::WriteEvent>>(log: &L) -> usize {
///     log.tree().len()
/// }
/// ```
pub struct TreeIsReadOnly;

/// C07-R6 / C09-R1: the server's rewind-and-patch helper needs exclusive access
/// to the storage, so it cannot be called through an `RwLock` read guard.
///
/// ```compile_fail,E0596
/// use sos_server_storage::{server_helpers, ServerStorage};
/// use sos_protocol::PatchRequest;
/// async fn through_read_guard(lock: &tokio::sync::RwLock<ServerStorage>, req: PatchRequest) {
///     let guard = lock.read().await;
///     let _ = server_helpers::event_patch::<_, sos_server_storage::Error>(req, &mut *guard).await;
/// }
/// ```
///
/// twin (write guard):
/// ```
/// use sos_server_storage::{server_helpers, ServerStorage};
/// use sos_protocol::PatchRequest;
/// async fn through_write_guard(lock: &tokio::sync::RwLock<ServerStorage>, req: PatchRequest) {
///     let mut guard = lock.write().await;
///     let _ = server_helpers::event_patch::<_, sos_server_storage::Error>(req, &mut *guard).await;
/// }
/// ```
pub struct PatchNeedsWriteGuard;

/// C07-R6: same for the full sync helper.
///
/// ```compile_fail,E0596
/// use sos_server_storage::{server_helpers, ServerStorage};
/// use sos_sync::SyncPacket;
/// async fn through_read_guard(lock: &tokio::sync::RwLock<ServerStorage>, packet: SyncPacket) {
///     let guard = lock.read().await;
///     let _ = server_helpers::sync_account::<_, sos_server_storage::Error>(packet, &mut *guard).await;
/// }
/// ```
///
/// twin:
/// ```
/// use sos_server_storage::{server_helpers, ServerStorage};
/// use sos_sync::SyncPacket;
/// async fn through_write_guard(lock: &tokio::sync::RwLock<ServerStorage>, packet: SyncPacket) {
///     let mut guard = lock.write().await;
///     let _ = server_helpers::sync_account::<_, sos_server_storage::Error>(packet, &mut *guard).await;
/// }
/// ```
pub struct SyncNeedsWriteGuard;
