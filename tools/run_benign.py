#!/usr/bin/env python3
"""False-alarm regression: every patch under /verif/selftest/benign is a
behaviour-preserving refactor of anchored code; all quick checks must stay
silent (exit 0) with it applied.  usage: run_benign.py [name ...]"""
import json, os, subprocess, sys
from concurrent.futures import ThreadPoolExecutor
ROOT = "/verif/selftest/benign"
names = sys.argv[1:] or sorted(f[:-5] for f in os.listdir(ROOT) if f.endswith(".diff"))
props = ["C%02d" % i for i in range(1, 21)]
if subprocess.run("git -C /repo status --porcelain", shell=True, capture_output=True, text=True).stdout.strip():
    raise SystemExit("/repo is not clean")
rp = os.path.join(ROOT, "results.json")
results = json.load(open(rp)) if os.path.exists(rp) else {}
def one(p):
    pr = subprocess.run("/verif/check %s --tier quick" % p, shell=True, capture_output=True, text=True)
    return p, pr.returncode, [l for l in pr.stdout.splitlines() if "[%s-" % p in l and not l.startswith("KNOWN")]
for n in names:
    if subprocess.run("git -C /repo apply %s/%s.diff" % (ROOT, n), shell=True).returncode != 0:
        results[n] = {"applied": False}; print(n, "DOES NOT APPLY"); continue
    try:
        first = one(props[0])
        with ThreadPoolExecutor(4) as ex:
            rs = [first] + list(ex.map(one, props[1:]))
    finally:
        subprocess.run("git -C /repo checkout -- .", shell=True)
    alarms = {p: v for p, rc, v in rs if rc != 0}
    rcs = {p: rc for p, rc, v in rs if rc != 0}
    results[n] = {"applied": True, "silent": not alarms, "alarms": alarms, "exit": rcs}
    print(n, "silent" if not alarms else "FALSE ALARM %s" % rcs, flush=True)
    for p, v in alarms.items():
        for l in v[:4]:
            print("    ", l[:260])
json.dump(results, open(rp, "w"), indent=1, sort_keys=True)
