#!/usr/bin/env python3
"""Apply each /verif/selftest/*.diff to /repo in turn, run the check of the
property it targets (must exit 1 with a VIOLATION line), revert. Not part of
any property's verdict."""
import json, os, re, subprocess, sys
REPO = "/repo"
idx = json.load(open("/verif/selftest/index.json"))
only = sys.argv[1:]
res = []
st = subprocess.check_output(["git", "-C", REPO, "status", "--porcelain", "--untracked-files=no"], text=True)
if st.strip():
    raise SystemExit("/repo is dirty")
for e in idx:
    if only and e["name"] not in only:
        continue
    p = "/verif/selftest/%s.diff" % e["name"]
    r = subprocess.run(["git", "-C", REPO, "apply", p], capture_output=True, text=True)
    if r.returncode != 0:
        res.append({"name": e["name"], "status": "patch does not apply"})
        print(e["name"], "PATCH DOES NOT APPLY")
        continue
    try:
        c = subprocess.run(["./check", e["property"]], cwd="/verif", capture_output=True, text=True)
        viol = [l for l in c.stdout.splitlines() if re.match(r"^\S+: C\d\d-R", l)]
        status = "detected" if c.returncode == 1 and viol else ("build-failed" if c.returncode not in (0, 1) else "MISSED")
        res.append({"name": e["name"], "property": e["property"], "status": status, "exit": c.returncode,
                    "violations": [v[:300] for v in viol[:4]], "stderr": c.stderr[-300:] if status == "build-failed" else ""})
        print(e["name"], status, (viol[0][:160] if viol else ""))
    finally:
        subprocess.check_call(["git", "-C", REPO, "checkout", "--", "."])
# merge into the recorded results (a partial run must not forget the rest)
rp = "/verif/selftest/results.json"
old = {}
if os.path.exists(rp):
    try:
        old = {x["name"]: x for x in json.load(open(rp))}
    except Exception:
        old = {}
for x in res:
    old[x["name"]] = x
json.dump(sorted(old.values(), key=lambda x: x["name"]), open(rp, "w"), indent=1)
