#!/usr/bin/env python3
"""Create the self-test patches in /verif/selftest from (file, old, new) edits
applied to /repo's HEAD (each edit must compile; expected detecting rule is
recorded). Run once when the repo moves; the patches are committed."""
import json, os, subprocess, sys
REPO = "/repo"
M = [
 ("c01_mirror_after_memory", "C01", "crates/vault/src/access_point.rs",
  "        if let Some(mirror) = self.mirror.as_mut() {\n            mirror.set_vault_name(name.clone()).await?;\n        }\n        Ok(self.vault.set_vault_name(name).await?)",
  "        let event = self.vault.set_vault_name(name.clone()).await?;\n        if let Some(mirror) = self.mirror.as_mut() {\n            mirror.set_vault_name(name).await?;\n        }\n        Ok(event)"),
 ("c01_sql_missing_folder_scope", "C01", "crates/database/src/entity/folder.rs",
  ".where_clause(\"folder_id = ?1\")\n            .where_and(\"identifier = ?2\");", ".where_clause(\"identifier = ?2\");"),
 ("c02_rename_wrong_event", "C02", "crates/backend/src/folder.rs",
  "let event = WriteEvent::SetVaultName(name.as_ref().to_owned());\n        let mut events = self.events.write().await;\n        events.apply(std::slice::from_ref(&event)).await?;",
  "let event = WriteEvent::SetVaultName(name.as_ref().to_owned());"),
 ("c02_merge_flags_not_replayed", "C02", "crates/storage/client/src/folder_sync.rs",
  "access_point.set_vault_flags(flags.clone()).await?;", "let _ = flags;"),
 ("c04_status_unsorted", "C04", "crates/sync/src/traits.rs",
  "        folder_roots.sort_by(|a, b| a.0.cmp(b.0));\n", ""),
 ("c05_unstable_sort", "C05", "crates/remote_sync/src/auto_merge.rs",
  "local.sort_by(|a, b| a.time().cmp(b.time()));", "local.sort_unstable_by(|a, b| a.time().cmp(b.time()));"),
 ("c05_subset_inverted", "C05", "crates/remote_sync/src/auto_merge.rs",
  "if local_commits.is_subset(&remote_commits) {", "if remote_commits.is_subset(&local_commits) {"),
 ("c06_tree_before_write", "C06", "crates/database/src/event_log.rs",
  "        if delete_before {\n            self.tree = CommitTree::new();\n        }\n\n        // Update the in-memory merkle tree\n        let mut hashes =\n            commits.iter().map(|c| *c.as_ref()).collect::<Vec<_>>();\n        self.tree.append(&mut hashes);\n        self.tree.commit();\n",
  ""),
 ("c06_load_commits_desc", "C06", "crates/database/src/entity/event.rs",
  ".where_clause(&format!(\"{}=?1\", table.id_column()))\n            .order_by(\"event_id ASC\");\n\n        let mut stmt = self.conn.prepare_cached(&query.as_string())?;\n\n        fn convert_row(row: &Row<'_>) -> Result<CommitRow, crate::Error> {",
  ".where_clause(&format!(\"{}=?1\", table.id_column()))\n            .order_by(\"event_id DESC\");\n\n        let mut stmt = self.conn.prepare_cached(&query.as_string())?;\n\n        fn convert_row(row: &Row<'_>) -> Result<CommitRow, crate::Error> {"),
 ("c07_gate_contains_applies", "C07", "crates/database/src/event_log.rs",
  "            Comparison::Contains(indices) => {\n                let head = self.tree().head()?;",
  "            Comparison::Contains(indices) => {\n                self.patch_unchecked(patch).await?;\n                let head = self.tree().head()?;"),
 ("c08_contains_without_verify", "C08", "crates/core/src/commit/tree.rs",
  "                if proof.verify(\n                    other_root.into(),\n                    indices_to_prove.as_slice(),\n                    leaves_to_prove.as_slice(),\n                    *length,\n                ) {",
  "                if proof.verify(\n                    other_root.into(),\n                    indices_to_prove.as_slice(),\n                    leaves_to_prove.as_slice(),\n                    *length,\n                ) || !leaves_to_prove.is_empty() {"),
 ("c10_nonce_supplied", "C10", "crates/vault/src/vault.rs",
  ".encrypt_symmetric(key, plaintext, None)", ".encrypt_symmetric(key, plaintext, Some(Default::default()))"),
 ("c11_handler_before_auth", "C11", "crates/server/src/handlers/account.rs",
  "    let uri = uri.path().to_string();\n    let account_id = parse_account_id(&headers);\n    match authenticate_endpoint(\n        account_id,\n        bearer,\n        uri.as_bytes(),\n        Some(query),\n        Arc::clone(&state),\n        Arc::clone(&backend),\n    )\n    .await\n    {\n        Ok(caller) => {\n            match handlers::sync_status(state, backend, caller).await {",
  "    let uri = uri.path().to_string();\n    let account_id = parse_account_id(&headers);\n    match authenticate_endpoint(\n        account_id,\n        bearer,\n        account_id.map(|a| a.to_string()).unwrap_or_default().as_bytes(),\n        Some(query),\n        Arc::clone(&state),\n        Arc::clone(&backend),\n    )\n    .await\n    {\n        Ok(caller) => {\n            match handlers::sync_status(state, backend, caller).await {"),
 ("c12_meta_not_reencrypted", "C12", "crates/vault/src/change_password.rs",
  "            let meta_aead =\n                new_vault.encrypt(&new_private_key, &meta_blob).await?;\n            let secret_aead =",
  "            let _ = &meta_blob;\n            let meta_aead = meta_aead.clone();\n            let secret_aead ="),
 ("c13_no_flush", "C13", "crates/filesystem/src/event_log.rs",
  "            Ok(_) => {\n                guard.flush().await?;\n                let mut hashes =", "            Ok(_) => {\n                let mut hashes ="),
 ("c14_swap_fields", "C14", "crates/vault/src/encoding/secret.rs",
  "        self.date_created = date_created;\n        let mut last_updated: UtcDateTime = Default::default();\n        last_updated.decode(&mut *reader).await?;\n        self.last_updated = last_updated;",
  "        self.last_updated = date_created;\n        let mut last_updated: UtcDateTime = Default::default();\n        last_updated.decode(&mut *reader).await?;\n        self.date_created = last_updated;"),
 ("c14_urn_flag_missing", "C14", "crates/vault/src/encoding/secret.rs",
  "        let has_owner_id = reader.read_bool().await?;\n        if has_owner_id {", "        let has_owner_id = true;\n        if has_owner_id {"),
 ("c15_unwrap_in_decoder", "C15", "crates/core/src/encoding/v1/commit.rs",
  "        let proof = MerkleProof::<Sha256>::from_bytes(&proof_bytes)\n            .map_err(encoding_error)?;", "        let proof = MerkleProof::<Sha256>::from_bytes(&proof_bytes).unwrap();"),
 ("c16_mismatch_swallowed", "C16", "crates/integrity/src/event_integrity.rs",
  "            if &checksum == commit {", "            if &checksum == commit || record.event_bytes().is_empty() {"),
 ("c17_rename_before_check", "C17", "crates/server/src/handlers/files.rs",
  "        if digest.as_slice() != file_name.as_ref() {\n            return Err(Error::FileChecksumMismatch(\n                file_name.to_string(),\n                hex::encode(digest.as_slice()),\n            ));\n        }\n\n        // Move the upload into place\n        tokio::fs::rename(upload_path, file_path).await?;",
  "        // Move the upload into place\n        tokio::fs::rename(upload_path, file_path).await?;\n\n        if digest.as_slice() != file_name.as_ref() {\n            return Err(Error::FileChecksumMismatch(\n                file_name.to_string(),\n                hex::encode(digest.as_slice()),\n            ));\n        }"),
 ("c18_unsanitised_entry", "C18", "crates/filesystem/src/archive/import.rs",
  "            let path = sanitize_file_path(\n                file_name.as_str().map_err(sos_archive::Error::from)?,\n            );",
  "            let path = PathBuf::from(\n                file_name.as_str().map_err(sos_archive::Error::from)?,\n            );"),
 ("c19_assert_after_move", "C19", "crates/database_upgrader/src/upgrader/mod.rs",
  "    let accounts_status = accounts.iter().zip(sync_status.iter()).collect();\n    assert_sync_status(&options, accounts_status).await?;\n", "    let accounts_status: Vec<_> = accounts.iter().zip(sync_status.iter()).collect();\n    if !options.dry_run {\n        assert_sync_status(&options, accounts_status).await?;\n    }\n"),
 ("c20_merge_delete_no_index", "C20", "crates/storage/client/src/folder_sync.rs",
  "                        #[cfg(feature = \"search\")]\n                        if let FolderMergeOptions::Search(folder_id, index) =\n                            &mut options\n                        {\n                            index.remove(folder_id, id);\n                        }\n", ""),
 ("c03_aead_pack_outside_cipher", "C03", "crates/vault/src/access_point.rs",
  "        let secret_blob = encode(secret_data.secret()).await?;\n        let secret_aead =\n            self.vault.encrypt(private_key, &secret_blob).await?;\n        let commit = Vault::commit_hash(&meta_aead, &secret_aead).await?;\n\n        if let Some(mirror) = self.mirror.as_mut() {\n            mirror\n                .insert_secret(",
  "        let secret_blob = encode(secret_data.secret()).await?;\n        let secret_aead = if secret_blob.len() > (1 << 24) {\n            AeadPack { nonce: Default::default(), ciphertext: secret_blob }\n        } else {\n            self.vault.encrypt(private_key, &secret_blob).await?\n        };\n        let commit = Vault::commit_hash(&meta_aead, &secret_aead).await?;\n\n        if let Some(mirror) = self.mirror.as_mut() {\n            mirror\n                .insert_secret("),
 ("c09_read_guard_for_patch", "C09", "crates/storage/server/src/server_helpers.rs",
  "pub async fn event_patch<S, E>(\n    req: PatchRequest,\n    storage: &mut S,", "pub async fn event_patch<S, E>(\n    req: PatchRequest,\n    storage: &S,"),
]

def main():
    out = []
    for name, prop, path, old, new in M:
        if old is None:
            continue
        full = os.path.join(REPO, path)
        src = open(full).read()
        if src.count(old) < 1:
            print("SKIP (anchor not found):", name)
            continue
        open(full, "w").write(src.replace(old, new, 1))
        diff = subprocess.check_output(["git", "-C", REPO, "diff"], text=True)
        subprocess.check_call(["git", "-C", REPO, "checkout", "--", "."])
        open("/verif/selftest/%s.diff" % name, "w").write(diff)
        out.append({"name": name, "property": prop, "file": path})
        print("ok", name)
    json.dump(out, open("/verif/selftest/index.json", "w"), indent=1)

main()
