#!/usr/bin/env python3
"""Confirm a seeded change and run the checks against it.

usage: seed_eval.py <dir with patch.diff, demo.diff> [--skip-confirm]

1. confirm (scratch worktree /var/tmp/confirm/wt, persistent target dir):
   with patch+demo the full suite must keep every BASELINE stable test green
   and at least one new (demo) test must fail; with the demo alone those
   tests must pass.
2. detect: apply patch.diff to /repo, run every quick check, revert.
Writes <dir>/result.json.
"""
import json
import os
import re
import subprocess
import sys
import time

REPO = "/repo"
CONF = "/var/tmp/confirm"
WT = CONF + "/wt"
TARGET = CONF + "/target"
BASE = json.load(open("/root/.vp/BASELINE.json"))
STABLE = set(BASE["stable_pass"])
ALWAYS_FAIL = set(BASE["always_fail"]) | set(BASE.get("flaky", []))


def sh(cmd, cwd=None, env=None, timeout=None):
    e = dict(os.environ)
    e["CARGO_NET_OFFLINE"] = "true"
    if env:
        e.update(env)
    p = subprocess.run(cmd, shell=True, cwd=cwd, env=e, stdout=subprocess.PIPE, stderr=subprocess.STDOUT, text=True, timeout=timeout)
    return p.returncode, p.stdout


def reset_wt():
    os.makedirs(CONF, exist_ok=True)
    if not os.path.isdir(WT):
        rc, out = sh("git -C %s worktree add --detach %s HEAD" % (REPO, WT))
        if rc != 0:
            raise SystemExit(out)
    head = subprocess.check_output(["git", "-C", REPO, "rev-parse", "HEAD"], text=True).strip()
    # discard whatever the previous seed left first: a checkout onto a moved
    # HEAD fails on a dirty tree and would leave the old patch in place
    sh("git reset -q --hard && git clean -fdq", cwd=WT)
    rc, out = sh("git checkout -q --detach %s && git reset -q --hard %s && git clean -fdq" % (head, head), cwd=WT)
    if rc != 0 or sh("git status --porcelain", cwd=WT)[1].strip():
        raise SystemExit("cannot reset the confirmation worktree: " + out)
    os.makedirs(WT + "/tests/unit/target", exist_ok=True)
    os.makedirs(WT + "/target/integration-test", exist_ok=True)


def run_suite(filter_expr=None):
    cmd = ("cargo nextest run --workspace --no-fail-fast --tool-config-file pb:/w/lib/nextest.toml "
           "--profile pb --test-threads 8 --offline")
    if filter_expr:
        cmd += " -E '%s'" % filter_expr
    rc, out = sh(cmd, cwd=WT, env={"CARGO_TARGET_DIR": TARGET}, timeout=5400)
    passed, failed = set(), set()
    for m in re.finditer(r"^\s+(PASS|FAIL|TIMEOUT|SIGABRT|SIGSEGV|LEAK)\s+\[[^\]]*\]\s+\(\s*\d+/\d+\)\s+(\S+)\s+(\S+)", out, re.M):
        name = "%s::%s" % (m.group(2), m.group(3))
        name = name.replace("::main ", "::main::")
        (passed if m.group(1) in ("PASS", "LEAK") else failed).add(name)
    m = re.search(r"Summary \[[^\]]*\]\s+(\d+) tests? run: (\d+) passed(?: \((\d+) [a-z]+\))?(?:, (\d+) failed)?", out)
    summary = {"run": int(m.group(1)), "passed": int(m.group(2)), "failed": int(m.group(4) or 0)} if m else None
    run_suite.last_summary = summary
    return rc, out, passed, failed


def norm(n):
    # nextest prints `sos-integration-tests::main access_control::allow::x`
    return n.replace("::main::", "::main::")


def confirm(d):
    res = {}
    reset_wt()
    rc, out = sh("git apply %s/patch.diff" % d, cwd=WT)
    if rc != 0:
        return {"ok": False, "why": "patch.diff does not apply: " + out[-400:]}
    rc, out = sh("git apply %s/demo.diff" % d, cwd=WT)
    if rc != 0:
        return {"ok": False, "why": "demo.diff does not apply: " + out[-400:]}
    t0 = time.time()
    rc, out, passed, failed = run_suite()
    res["with_patch_s"] = round(time.time() - t0)
    open(d + "/suite_with_patch.log", "w").write(out[-200000:])
    summ = run_suite.last_summary
    if summ is None:
        return {"ok": False, "why": "suite did not run (compile error?)", "tail": out[-1500:]}
    res["summary_with_patch"] = summ
    base_broken = sorted(n for n in failed if n in STABLE)
    new_fail = sorted(n for n in failed if n not in STABLE and n not in ALWAYS_FAIL)
    res["existing_tests_failing_with_patch"] = base_broken
    res["demo_tests_failing_with_patch"] = new_fail
    res["passed_with_patch"] = summ["passed"]
    if base_broken:
        # re-run them once: flaky?
        expr = " + ".join("test(%s)" % n.split("::", 2)[-1] for n in base_broken[:20])
        rc2, out2, p2, f2 = run_suite(expr)
        still = sorted(n for n in f2 if n in STABLE)
        res["existing_tests_failing_on_rerun"] = still
        if still:
            res["ok"] = False
            res["why"] = "existing tests fail with the patch"
            return res
    if not new_fail:
        res["ok"] = False
        res["why"] = "no demonstration test fails with the patch"
        return res
    # demo alone must pass
    reset_wt()
    sh("git apply %s/demo.diff" % d, cwd=WT)
    expr = " + ".join("test(%s)" % n.split("::", 2)[-1] for n in new_fail)
    rc3, out3, p3, f3 = run_suite(expr)
    open(d + "/demo_without_patch.log", "w").write(out3[-100000:])
    summ3 = run_suite.last_summary or {"run": 0, "passed": 0, "failed": 0}
    res["summary_demo_without_patch"] = summ3
    res["demo_tests_passing_without_patch"] = summ3["passed"]
    res["demo_tests_failing_without_patch"] = sorted(f3)
    res["ok"] = summ3["passed"] >= len(new_fail) and summ3["failed"] == 0 and not f3
    if not res["ok"]:
        res["why"] = "demonstration does not pass on the unmodified tree"
    return res


def detect(d):
    rc, out = sh("git -C %s status --porcelain --untracked-files=no" % REPO)
    if out.strip():
        raise SystemExit("/repo has uncommitted changes; refusing to apply a seeded patch")
    rc, out = sh("git -C %s apply %s/patch.diff" % (REPO, d))
    if rc != 0:
        return {"applied": False, "why": out[-400:]}
    det = {}
    try:
        for i in range(1, 21):
            pid = "C%02d" % i
            rc, out = sh("./check %s --tier quick" % pid, cwd="/verif", timeout=1800)
            v = [l for l in out.splitlines() if re.match(r"^\S+: C\d\d-R", l)]
            det[pid] = {"exit": rc, "violations": [x[:400] for x in v]}
    finally:
        sh("git -C %s checkout -- ." % REPO)
    return {"applied": True, "checks": det,
            "detected_by": sorted(p for p, x in det.items() if x["exit"] == 1)}


def main():
    d = os.path.abspath(sys.argv[1])
    out = {}
    if "--skip-confirm" not in sys.argv:
        out["confirm"] = confirm(d)
        json.dump(out["confirm"], open(d + "/confirm.json", "w"), indent=1)
    if "--skip-detect" not in sys.argv:
        out["detect"] = detect(d)
        json.dump(out["detect"], open(d + "/detect.json", "w"), indent=1)
    print(json.dumps({"dir": d, "confirm_ok": out.get("confirm", {}).get("ok"), "detected_by": out.get("detect", {}).get("detected_by")}))


if __name__ == "__main__":
    main()
