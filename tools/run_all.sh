#!/bin/bash
# Run every check (tier $1, default quick) on /repo's current tree; 4 at a time after a first one warmed the cache.
tier=${1:-quick}
cd /verif
./check C01 --tier $tier > /var/tmp/sosverif/runall-C01.log 2>&1; echo "C01 exit=$?"
printf "%s\n" C02 C03 C04 C05 C06 C07 C08 C09 C10 C11 C12 C13 C14 C15 C16 C17 C18 C19 C20 | \
  xargs -P 4 -I{} sh -c "./check {} --tier $tier > /var/tmp/sosverif/runall-{}.log 2>&1; echo {} exit=\$?"
grep -h "^\[C..\] tier" /var/tmp/sosverif/runall-C*.log | sort
grep -h "^VIOLATION\|^KNOWN-FINDING" /var/tmp/sosverif/runall-C*.log | sort | uniq -c
