#!/usr/bin/env python3
"""Copy a confirmed seeded change into /verif/seeded/<name>/ with meta.json.

usage: adopt_seed.py <src dir> <name> <property> "<needs>" 
"""
import json, os, shutil, sys
src, name, prop, needs = sys.argv[1:5]
dst = "/verif/seeded/" + name
os.makedirs(dst, exist_ok=True)
for f in ("patch.diff", "demo.diff", "notes.md"):
    if os.path.exists(os.path.join(src, f)):
        shutil.copy(os.path.join(src, f), dst)
def _load(n):
    p = os.path.join(src, n)
    return json.load(open(p)) if os.path.exists(p) else {}
conf = _load("confirm.json")
det = _load("detect.json")
meta = {
    "name": name,
    "breaks_property": prop,
    "needs_to_manifest": needs,
    "author": "fresh sub-agent given only the property text and a scratch worktree",
    "confirmed": {
        "how": "tools/seed_eval.py: patch+demo applied to a scratch worktree of /repo HEAD, full nextest baseline command; then demo alone",
        "ok": conf.get("ok"),
        "existing_tests_passed_with_patch": conf.get("passed_with_patch"),
        "existing_tests_failing_with_patch": conf.get("existing_tests_failing_with_patch"),
        "demo_tests_failing_with_patch": conf.get("demo_tests_failing_with_patch"),
        "demo_tests_passing_without_patch": conf.get("demo_tests_passing_without_patch"),
    },
    "checks": {
        "detected_by": det.get("detected_by"),
        "violations": {p: x["violations"][:3] for p, x in (det.get("checks") or {}).items() if x.get("violations")},
    },
}
json.dump(meta, open(os.path.join(dst, "meta.json"), "w"), indent=1)
print(json.dumps({"name": name, "confirmed": conf.get("ok"), "detected_by": det.get("detected_by")}))
