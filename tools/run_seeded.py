#!/usr/bin/env python3
"""Regression run over /verif/seeded/*: apply each patch.diff to /repo, run
the quick check of every property (or only the seed's own with --own), undo,
and refresh meta.json['checks'] + seeded/results.json.

usage: run_seeded.py [--own] [name ...]
/repo must be clean; it is restored after every patch."""
import json, os, subprocess, sys
ROOT = "/verif/seeded"
args = [a for a in sys.argv[1:] if not a.startswith("--")]
own = "--own" in sys.argv
names = args or sorted(n for n in os.listdir(ROOT) if os.path.exists(os.path.join(ROOT, n, "meta.json")))
props = ["C%02d" % i for i in range(1, 21)]
if subprocess.run("git -C /repo status --porcelain", shell=True, capture_output=True, text=True).stdout.strip():
    raise SystemExit("/repo is not clean")
results = {}
rp = os.path.join(ROOT, "results.json")
if os.path.exists(rp):
    results = json.load(open(rp))
for n in names:
    d = os.path.join(ROOT, n)
    meta = json.load(open(os.path.join(d, "meta.json")))
    rc = subprocess.run("git -C /repo apply %s/patch.diff" % d, shell=True).returncode
    if rc != 0:
        results[n] = {"applied": False}
        continue
    try:
        checks = {}
        which = [meta["breaks_property"]] if own else props

        def one(p):
            pr = subprocess.run("/verif/check %s --tier quick" % p, shell=True, capture_output=True, text=True)
            vio = [l for l in pr.stdout.splitlines() if ": %s-" % p in l and "[" in l and not l.startswith("KNOWN")]
            return p, {"exit": pr.returncode, "violations": vio}
        # the first check builds the analysis of this tree; the rest share it
        p0, c0 = one(which[0])
        checks[p0] = c0
        from concurrent.futures import ThreadPoolExecutor
        with ThreadPoolExecutor(5) as ex:
            for p, c in ex.map(one, which[1:]):
                checks[p] = c
    finally:
        subprocess.run("git -C /repo checkout -- . && git -C /repo clean -fdq crates", shell=True)
    det = sorted(p for p, c in checks.items() if c["exit"] == 1)
    broken = sorted(p for p, c in checks.items() if c["exit"] not in (0, 1))
    results[n] = {"applied": True, "detected_by": det, "checker_errors": broken,
                  "own_property_detects": meta["breaks_property"] in det}
    if not own:
        meta["checks"] = {"detected_by": det or None,
                          "violations": {p: c["violations"][:3] for p, c in checks.items() if c["violations"]}}
        json.dump(meta, open(os.path.join(d, "meta.json"), "w"), indent=1)
    print(n, det or "NOT DETECTED", ("ERRORS %s" % broken) if broken else "", flush=True)
json.dump(results, open(rp, "w"), indent=1, sort_keys=True)
# restore evidence of the clean tree is the caller's job (tools/run_all.sh)
