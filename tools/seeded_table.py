#!/usr/bin/env python3
"""Render the table of seeded changes (DESIGN.md 6.4) from /verif/seeded/*/meta.json
plus the hand-written notes in /verif/seeded/notes.json (first verdict, rule added)."""
import json, os
root = "/verif/seeded"
notes = json.load(open(os.path.join(root, "notes.json"))) if os.path.exists(os.path.join(root, "notes.json")) else {}
rows = []
for name in sorted(os.listdir(root)):
    mp = os.path.join(root, name, "meta.json")
    if not os.path.exists(mp):
        continue
    m = json.load(open(mp))
    n = notes.get(name, {})
    det = m["checks"].get("detected_by") or []
    rules = sorted({v.split(": ")[1].split(":")[0] for vs in m["checks"].get("violations", {}).values() for v in vs if ": " in v})
    rows.append("| %s | %s | %s | %s | %s | %s |" % (
        name, m["breaks_property"], n.get("what", ""), m["needs_to_manifest"],
        ("**" + ", ".join(rules) + "**") if det else "not detected",
        n.get("history", "")))
table = "| seed | property | change | needs | caught by (now) | history |\n|---|---|---|---|---|---|\n" + "\n".join(rows)
import sys
if "--write" in sys.argv:
    p = "/verif/DESIGN.md"; s = open(p).read()
    a = s.index("<!-- SEEDED-BEGIN -->") + len("<!-- SEEDED-BEGIN -->"); b = s.index("<!-- SEEDED-END -->")
    open(p, "w").write(s[:a] + "\n" + table + "\n" + s[b:])
    print("wrote %d rows" % len(rows))
else:
    print(table)
