// sosfacts — a rustc_private driver that compiles a crate exactly as rustc
// would and additionally dumps facts (items, types, impls, MIR bodies with
// resolved callees) as JSON lines, for the rule engine in /verif/rules.
//
// Used as RUSTC_WORKSPACE_WRAPPER: argv[1] is the real rustc path and is
// dropped. Facts are written to $SOSFACTS_OUT/<crate>-<kind>-<hash>.jsonl
// with one write per process.
#![feature(rustc_private)]
#![allow(clippy::all)]

extern crate rustc_abi;
extern crate rustc_driver;
extern crate rustc_hir;
extern crate rustc_interface;
extern crate rustc_middle;
extern crate rustc_session;
extern crate rustc_span;

mod json;

use json::J;
use rustc_driver::{Callbacks, Compilation};
use rustc_hir::def::DefKind;
use rustc_hir::def_id::{DefId, LocalDefId, LOCAL_CRATE};
use rustc_interface::interface::Compiler;
use rustc_middle::mir::{
    self, AggregateKind, BasicBlock, Body, Const, ConstValue, Operand, Place,
    ProjectionElem, Rvalue, StatementKind, TerminatorKind,
};
use rustc_middle::ty::print::{with_crate_prefix, with_no_trimmed_paths, with_no_visible_paths};
use rustc_middle::ty::{self, Instance, Ty, TyCtxt, TypingEnv};
use rustc_span::Span;
use std::collections::BTreeSet;
use std::io::Write;

struct Cb {
    out_dir: String,
}

fn tstr<'tcx>(ty: Ty<'tcx>) -> String {
    let s = with_crate_prefix!(with_no_visible_paths!(with_no_trimmed_paths!(ty.to_string())));
    if s.len() > 600 {
        let mut e = 600;
        while !s.is_char_boundary(e) {
            e -= 1;
        }
        format!("{}…", &s[..e])
    } else {
        s
    }
}

fn dpath(tcx: TyCtxt<'_>, did: DefId) -> String {
    with_crate_prefix!(with_no_visible_paths!(with_no_trimmed_paths!(tcx.def_path_str(did))))
}

fn dpath_args<'tcx>(
    tcx: TyCtxt<'tcx>,
    did: DefId,
    args: ty::GenericArgsRef<'tcx>,
) -> String {
    with_crate_prefix!(with_no_visible_paths!(with_no_trimmed_paths!(
        tcx.def_path_str_with_args(did, args)
    )))
}

/// Collect the def paths of every ADT mentioned in a type.
fn adts_in<'tcx>(tcx: TyCtxt<'tcx>, ty: Ty<'tcx>, out: &mut BTreeSet<String>) {
    for arg in ty.walk() {
        if let Some(t) = arg.as_type() {
            match t.kind() {
                ty::Adt(def, _) => {
                    out.insert(dpath(tcx, def.did()));
                }
                ty::Dynamic(preds, ..) => {
                    if let Some(p) = preds.principal_def_id() {
                        out.insert(format!("dyn {}", dpath(tcx, p)));
                    }
                }
                _ => {}
            }
        }
    }
}

fn span_loc(tcx: TyCtxt<'_>, span: Span) -> (String, usize, usize, usize) {
    let sp = span.source_callsite();
    let sm = tcx.sess.source_map();
    let lo = sm.lookup_char_pos(sp.lo());
    let hi = sm.lookup_char_pos(sp.hi());
    let file = match &lo.file.name {
        rustc_span::FileName::Real(r) => match r.local_path() {
            Some(p) => p.to_string_lossy().to_string(),
            None => format!("{:?}", lo.file.name),
        },
        other => format!("{:?}", other),
    };
    (file, lo.line, lo.col.0 + 1, hi.line)
}

fn macro_name(span: Span) -> Option<String> {
    if !span.from_expansion() {
        return None;
    }
    // outermost macro
    let mut sp = span;
    let mut name = None;
    while sp.from_expansion() {
        let data = sp.ctxt().outer_expn_data();
        match data.kind {
            rustc_span::ExpnKind::Macro(_, sym) => name = Some(sym.to_string()),
            rustc_span::ExpnKind::Desugaring(d) => {
                if name.is_none() {
                    name = Some(format!("desugar:{:?}", d))
                }
            }
            _ => {}
        }
        sp = data.call_site;
    }
    name
}

struct BodyCx<'a, 'tcx> {
    tcx: TyCtxt<'tcx>,
    body: &'a Body<'tcx>,
    tenv: TypingEnv<'tcx>,
}

impl<'a, 'tcx> BodyCx<'a, 'tcx> {
    fn place(&self, p: &Place<'tcx>) -> String {
        let mut s = format!("{}", p.local.as_usize());
        for (base, elem) in p.as_ref().iter_projections() {
            match elem {
                ProjectionElem::Deref => s.push_str(".*"),
                ProjectionElem::Field(f, _) => {
                    let bty = base.ty(self.body, self.tcx);
                    let mut name = String::new();
                    match bty.ty.kind() {
                        ty::Adt(def, _) => {
                            let vidx = bty
                                .variant_index
                                .unwrap_or(rustc_abi::FIRST_VARIANT);
                            if def.is_enum() || def.is_struct() || def.is_union()
                            {
                                if let Some(v) = def.variants().get(vidx) {
                                    if let Some(fd) = v.fields.get(f) {
                                        name = fd.name.to_string();
                                    }
                                }
                            }
                        }
                        _ => {}
                    }
                    s.push_str(&format!(".f{}:{}", f.as_usize(), name));
                }
                ProjectionElem::Downcast(sym, v) => {
                    let n = match sym {
                        Some(sy) => sy.to_string(),
                        None => String::new(),
                    };
                    s.push_str(&format!(".v{}:{}", v.as_usize(), n));
                }
                ProjectionElem::Index(l) => {
                    s.push_str(&format!(".[{}]", l.as_usize()))
                }
                ProjectionElem::ConstantIndex { .. }
                | ProjectionElem::Subslice { .. } => s.push_str(".[]"),
                _ => s.push_str(".o"),
            }
        }
        s
    }

    fn constant(&self, c: &mir::ConstOperand<'tcx>) -> J {
        let ty = c.const_.ty();
        let mut o = J::obj();
        match ty.kind() {
            ty::FnDef(did, args) => {
                o.put("fn", J::s(dpath(self.tcx, *did)));
                o.put("fnargs", J::s(dpath_args(self.tcx, *did, args)));
                return o;
            }
            _ => {}
        }
        o.put("ty", J::s(tstr(ty)));
        match c.const_ {
            Const::Val(val, _) => {
                self.constval(val, ty, &mut o);
            }
            Const::Unevaluated(u, _) => {
                o.put("const", J::s(dpath(self.tcx, u.def)));
                if let Ok(val) =
                    c.const_.eval(self.tcx, self.tenv, rustc_span::DUMMY_SP)
                {
                    self.constval(val, ty, &mut o);
                }
            }
            Const::Ty(_, ct) => {
                o.put("k", J::s(format!("{:?}", ct)));
            }
        }
        o
    }

    fn constval(&self, val: ConstValue, ty: Ty<'tcx>, o: &mut J) {
        match val {
            ConstValue::Scalar(mir::interpret::Scalar::Int(i)) => {
                let bits = i.to_bits_unchecked();
                match ty.kind() {
                    ty::Bool => o.put("b", J::Bool(bits != 0)),
                    ty::Int(_) => {
                        let size = i.size();
                        let v = size.sign_extend(bits) as i128;
                        o.put("i", J::Raw(v.to_string()))
                    }
                    ty::Char => o.put("i", J::Raw(bits.to_string())),
                    _ => o.put("i", J::Raw(bits.to_string())),
                }
            }
            ConstValue::Scalar(mir::interpret::Scalar::Ptr(ptr, _)) => {
                // &[u8; N] literals (format_args templates, b"..")
                if let ty::Ref(_, inner, _) = ty.kind() {
                    if let ty::Array(elem, _) = inner.kind() {
                        if *elem == self.tcx.types.u8 {
                            let (prov, off) = ptr.prov_and_relative_offset();
                            if let Some(rustc_middle::mir::interpret::GlobalAlloc::Memory(a)) =
                                self.tcx.try_get_global_alloc(prov.alloc_id())
                            {
                                let a = a.inner();
                                let start = off.bytes_usize();
                                let end = a.size().bytes_usize();
                                if start <= end {
                                    let bytes = a
                                        .inspect_with_uninit_and_ptr_outside_interpreter(start..end);
                                    o.put(
                                        "s",
                                        J::s(String::from_utf8_lossy(bytes).to_string()),
                                    );
                                    o.put("bytes", J::Bool(true));
                                }
                            }
                        }
                    }
                }
            }
            ConstValue::ZeroSized => {
                o.put("zst", J::Bool(true));
            }
            ConstValue::Slice { .. } => {
                if let Some(bytes) =
                    val.try_get_slice_bytes_for_diagnostics(self.tcx)
                {
                    o.put(
                        "s",
                        J::s(String::from_utf8_lossy(bytes).to_string()),
                    );
                }
            }
            _ => {}
        }
    }

    fn operand(&self, op: &Operand<'tcx>) -> J {
        match op {
            Operand::Copy(p) => J::s(format!("c{}", self.place(p))),
            Operand::Move(p) => J::s(format!("m{}", self.place(p))),
            Operand::Constant(c) => self.constant(c),
            #[allow(unreachable_patterns)]
            _ => J::s("?".to_string()),
        }
    }

    fn rvalue(&self, rv: &Rvalue<'tcx>) -> J {
        let mut o = J::obj();
        match rv {
            Rvalue::Use(op, ..) => {
                o.put("k", J::s("use".into()));
                o.put("ops", J::Arr(vec![self.operand(op)]));
            }
            Rvalue::Repeat(op, _) => {
                o.put("k", J::s("repeat".into()));
                o.put("ops", J::Arr(vec![self.operand(op)]));
            }
            Rvalue::Ref(_, bk, p) => {
                let m = matches!(bk, mir::BorrowKind::Mut { .. });
                o.put("k", J::s(if m { "refmut" } else { "ref" }.into()));
                o.put("p", J::s(self.place(p)));
            }
            Rvalue::RawPtr(_, p) => {
                o.put("k", J::s("rawptr".into()));
                o.put("p", J::s(self.place(p)));
            }
            Rvalue::Cast(kind, op, ty) => {
                o.put("k", J::s("cast".into()));
                o.put("ck", J::s(format!("{:?}", kind)));
                o.put("ops", J::Arr(vec![self.operand(op)]));
                o.put("ty", J::s(tstr(*ty)));
            }
            Rvalue::BinaryOp(bop, ops) => {
                o.put("k", J::s("bin".into()));
                o.put("op", J::s(format!("{:?}", bop)));
                o.put(
                    "ops",
                    J::Arr(vec![self.operand(&ops.0), self.operand(&ops.1)]),
                );
            }
            Rvalue::UnaryOp(uop, op) => {
                o.put("k", J::s("un".into()));
                o.put("op", J::s(format!("{:?}", uop)));
                o.put("ops", J::Arr(vec![self.operand(op)]));
            }
            Rvalue::Discriminant(p) => {
                o.put("k", J::s("discr".into()));
                o.put("p", J::s(self.place(p)));
                let pty = p.ty(self.body, self.tcx).ty;
                if let ty::Adt(def, _) = pty.kind() {
                    if def.is_enum() {
                        o.put("enum", J::s(dpath(self.tcx, def.did())));
                        let mut m = J::obj();
                        for (vi, d) in def.discriminants(self.tcx) {
                            m.put(
                                &d.val.to_string(),
                                J::s(def.variant(vi).name.to_string()),
                            );
                        }
                        o.put("map", m);
                    }
                }
            }
            Rvalue::Aggregate(kind, ops) => {
                o.put("k", J::s("agg".into()));
                match &**kind {
                    AggregateKind::Array(_) => o.put("ak", J::s("array".into())),
                    AggregateKind::Tuple => o.put("ak", J::s("tuple".into())),
                    AggregateKind::Adt(did, vidx, _, _, fidx) => {
                        o.put("ak", J::s("adt".into()));
                        o.put("adt", J::s(dpath(self.tcx, *did)));
                        let def = self.tcx.adt_def(*did);
                        let v = def.variant(*vidx);
                        o.put("variant", J::s(v.name.to_string()));
                        let names: Vec<J> = match fidx {
                            Some(f) => {
                                vec![J::s(v.fields[*f].name.to_string())]
                            }
                            None => v
                                .fields
                                .iter()
                                .map(|f| J::s(f.name.to_string()))
                                .collect(),
                        };
                        o.put("fields", J::Arr(names));
                    }
                    AggregateKind::Closure(did, _) => {
                        o.put("ak", J::s("closure".into()));
                        o.put("def", J::s(dpath(self.tcx, *did)));
                    }
                    AggregateKind::Coroutine(did, _) => {
                        o.put("ak", J::s("coroutine".into()));
                        o.put("def", J::s(dpath(self.tcx, *did)));
                    }
                    AggregateKind::CoroutineClosure(did, _) => {
                        o.put("ak", J::s("coroutine_closure".into()));
                        o.put("def", J::s(dpath(self.tcx, *did)));
                    }
                    AggregateKind::RawPtr(..) => {
                        o.put("ak", J::s("rawptr".into()))
                    }
                }
                o.put(
                    "ops",
                    J::Arr(ops.iter().map(|x| self.operand(x)).collect()),
                );
            }
            Rvalue::CopyForDeref(p) => {
                o.put("k", J::s("use".into()));
                o.put("ops", J::Arr(vec![J::s(format!("c{}", self.place(p)))]));
            }
            Rvalue::ThreadLocalRef(did) => {
                o.put("k", J::s("tls".into()));
                o.put("def", J::s(dpath(self.tcx, *did)));
            }
            Rvalue::WrapUnsafeBinder(op, _) => {
                o.put("k", J::s("use".into()));
                o.put("ops", J::Arr(vec![self.operand(op)]));
            }
            #[allow(unreachable_patterns)]
            other => {
                o.put("k", J::s("other".into()));
                o.put("dbg", J::s(format!("{:?}", other)));
            }
        }
        o
    }

    fn callee(&self, func: &Operand<'tcx>, o: &mut J) {
        let tcx = self.tcx;
        let fty = func.ty(self.body, tcx);
        match fty.kind() {
            ty::FnDef(did, args) => {
                o.put("callee", J::s(dpath(tcx, *did)));
                o.put("callee_full", J::s(dpath_args(tcx, *did, args)));
                let targs: Vec<J> = args
                    .iter()
                    .filter_map(|a| a.as_type())
                    .map(|t| J::s(tstr(t)))
                    .collect();
                o.put("targs", J::Arr(targs));
                let mut adts = BTreeSet::new();
                for a in args.iter() {
                    if let Some(t) = a.as_type() {
                        adts_in(tcx, t, &mut adts);
                    }
                }
                o.put(
                    "targ_adts",
                    J::Arr(adts.into_iter().map(J::s).collect()),
                );
                if let Some(tr) = tcx.trait_of_assoc(*did) {
                    o.put("trait", J::s(dpath(tcx, tr)));
                    o.put("method", J::s(tcx.item_name(*did).to_string()));
                    if let Some(st) = args.get(0).and_then(|a| a.as_type()) {
                        o.put("self_ty", J::s(tstr(st)));
                        match st.peel_refs().kind() {
                            ty::Dynamic(..) => o.put("dispatch", J::s("dyn".into())),
                            ty::Param(_) => {
                                o.put("dispatch", J::s("param".into()))
                            }
                            _ => {}
                        }
                    }
                }
                // resolve
                let args_n = tcx
                    .try_normalize_erasing_regions(self.tenv, ty::Unnormalized::new_wip(*args))
                    .ok();
                if let Some(a) = args_n {
                    match Instance::try_resolve(tcx, self.tenv, *did, a) {
                        Ok(Some(inst)) => {
                            let rdid = inst.def_id();
                            let kind = match inst.def {
                                ty::InstanceKind::Item(_) => "item",
                                ty::InstanceKind::Virtual(..) => "virtual",
                                ty::InstanceKind::ClosureOnceShim { .. } => {
                                    "closure_once"
                                }
                                ty::InstanceKind::FnPtrShim(..) => "fnptr",
                                ty::InstanceKind::Intrinsic(_) => "intrinsic",
                                _ => "shim",
                            };
                            o.put("rkind", J::s(kind.into()));
                            o.put("resolved", J::s(dpath(tcx, rdid)));
                            o.put(
                                "resolved_full",
                                J::s(dpath_args(tcx, rdid, inst.args)),
                            );
                        }
                        _ => {}
                    }
                }
            }
            ty::FnPtr(..) => {
                o.put("callee", J::s("<fnptr>".into()));
                o.put("fop", self.operand(func));
            }
            _ => {
                o.put("callee", J::s("<unknown>".into()));
                o.put("fop", self.operand(func));
            }
        }
    }

    fn terminator(&self, t: &mir::Terminator<'tcx>) -> J {
        let mut o = J::obj();
        let tcx = self.tcx;
        let (file, line, col, hiline) = span_loc(tcx, t.source_info.span);
        let _ = file;
        o.put("l", J::Raw(line.to_string()));
        match &t.kind {
            TerminatorKind::Goto { target } => {
                o.put("k", J::s("goto".into()));
                o.put("t", J::Raw(target.as_usize().to_string()));
            }
            TerminatorKind::SwitchInt { discr, targets } => {
                o.put("k", J::s("switch".into()));
                o.put("d", self.operand(discr));
                o.put("dty", J::s(tstr(discr.ty(self.body, tcx))));
                let mut vals = vec![];
                for (v, bb) in targets.iter() {
                    vals.push(J::Arr(vec![
                        J::Raw(v.to_string()),
                        J::Raw(bb.as_usize().to_string()),
                    ]));
                }
                o.put("vals", J::Arr(vals));
                o.put(
                    "otherwise",
                    J::Raw(targets.otherwise().as_usize().to_string()),
                );
            }
            TerminatorKind::UnwindResume => o.put("k", J::s("resume".into())),
            TerminatorKind::UnwindTerminate(_) => {
                o.put("k", J::s("terminate".into()))
            }
            TerminatorKind::Return => o.put("k", J::s("return".into())),
            TerminatorKind::Unreachable => {
                o.put("k", J::s("unreachable".into()))
            }
            TerminatorKind::Drop { place, target, .. } => {
                o.put("k", J::s("drop".into()));
                o.put("p", J::s(self.place(place)));
                o.put("t", J::Raw(target.as_usize().to_string()));
            }
            TerminatorKind::Call {
                func,
                args,
                destination,
                target,
                fn_span,
                ..
            } => {
                o.put("k", J::s("call".into()));
                self.callee(func, &mut o);
                o.put(
                    "args",
                    J::Arr(args.iter().map(|a| self.operand(&a.node)).collect()),
                );
                o.put("dest", J::s(self.place(destination)));
                if let Some(t) = target {
                    o.put("t", J::Raw(t.as_usize().to_string()));
                }
                o.put("c", J::Raw(col.to_string()));
                o.put("hl", J::Raw(hiline.to_string()));
                let (_, fl, fc, _) = span_loc(tcx, *fn_span);
                o.put("fl", J::Raw(fl.to_string()));
                o.put("fc", J::Raw(fc.to_string()));
                if t.source_info.span.from_expansion() {
                    o.put("exp", J::Bool(true));
                    if let Some(m) = macro_name(t.source_info.span) {
                        o.put("macro", J::s(m));
                    }
                }
            }
            TerminatorKind::TailCall { func, args, .. } => {
                o.put("k", J::s("tailcall".into()));
                self.callee(func, &mut o);
                o.put(
                    "args",
                    J::Arr(args.iter().map(|a| self.operand(&a.node)).collect()),
                );
            }
            TerminatorKind::Assert {
                cond,
                expected,
                msg,
                target,
                ..
            } => {
                o.put("k", J::s("assert".into()));
                o.put("cond", self.operand(cond));
                o.put("expected", J::Bool(*expected));
                let m = format!("{:?}", msg);
                let kind = m
                    .split(|c: char| !c.is_alphanumeric())
                    .next()
                    .unwrap_or("")
                    .to_string();
                o.put("msg", J::s(kind));
                if let mir::AssertKind::Overflow(op, l, _r) = &**msg {
                    o.put("op", J::s(format!("{:?}", op)));
                    o.put("oty", J::s(tstr(l.ty(self.body, tcx))));
                }
                o.put("t", J::Raw(target.as_usize().to_string()));
                if t.source_info.span.from_expansion() {
                    o.put("exp", J::Bool(true));
                }
            }
            TerminatorKind::Yield {
                value,
                resume,
                resume_arg,
                drop,
            } => {
                o.put("k", J::s("yield".into()));
                o.put("v", self.operand(value));
                o.put("t", J::Raw(resume.as_usize().to_string()));
                o.put("ra", J::s(self.place(resume_arg)));
                if let Some(d) = drop {
                    o.put("drop", J::Raw(d.as_usize().to_string()));
                }
            }
            TerminatorKind::CoroutineDrop => {
                o.put("k", J::s("coroutine_drop".into()))
            }
            TerminatorKind::FalseEdge {
                real_target,
                imaginary_target,
            } => {
                o.put("k", J::s("false_edge".into()));
                o.put("t", J::Raw(real_target.as_usize().to_string()));
                o.put(
                    "imag",
                    J::Raw(imaginary_target.as_usize().to_string()),
                );
            }
            TerminatorKind::FalseUnwind { real_target, .. } => {
                o.put("k", J::s("goto".into()));
                o.put("t", J::Raw(real_target.as_usize().to_string()));
            }
            TerminatorKind::InlineAsm { .. } => {
                o.put("k", J::s("asm".into()));
            }
        }
        o
    }
}

fn is_guardish(s: &str) -> bool {
    s.contains("Guard") || s.contains("guard")
}

fn dump_body<'tcx>(
    tcx: TyCtxt<'tcx>,
    ldid: LocalDefId,
    body: &Body<'tcx>,
    out: &mut Vec<String>,
) {
    let did = ldid.to_def_id();
    let kind = tcx.def_kind(did);
    let tenv = TypingEnv::post_analysis(tcx, did);
    let cx = BodyCx { tcx, body, tenv };

    let mut o = J::obj();
    o.put("t", J::s("body".into()));
    o.put("path", J::s(dpath(tcx, did)));
    let root = tcx.typeck_root_def_id(did);
    o.put("root", J::s(dpath(tcx, root)));
    o.put("kind", J::s(format!("{:?}", kind)));
    if let Some(parent) = tcx.opt_parent(did) {
        if matches!(
            kind,
            DefKind::Closure | DefKind::InlineConst | DefKind::AnonConst
        ) {
            o.put("parent", J::s(dpath(tcx, parent)));
        }
    }
    let (file, line, _c, hiline) = span_loc(tcx, tcx.def_span(did));
    o.put("file", J::s(file));
    o.put("line", J::Raw(line.to_string()));
    let (_f, bl, _c2, bh) = span_loc(tcx, body.span);
    let _ = hiline;
    o.put("lo", J::Raw(bl.to_string()));
    o.put("hi", J::Raw(bh.to_string()));
    if tcx.def_span(did).from_expansion() {
        o.put("exp", J::Bool(true));
        if let Some(m) = macro_name(tcx.def_span(did)) {
            o.put("macro", J::s(m));
        }
    }
    if matches!(kind, DefKind::Fn | DefKind::AssocFn) {
        o.put("vis", J::s(format!("{:?}", tcx.visibility(did))));
        o.put("name", J::s(tcx.item_name(did).to_string()));
        let sig = tcx.fn_sig(did).instantiate_identity().skip_norm_wip().skip_binder();
        o.put(
            "inputs",
            J::Arr(sig.inputs().iter().map(|t| J::s(tstr(*t))).collect()),
        );
        o.put("output", J::s(tstr(sig.output())));
        o.put("is_async", J::Bool(tcx.asyncness(did).is_async()));
        if kind == DefKind::AssocFn {
            if let Some(imp) = tcx.impl_of_assoc(did) {
                o.put("impl", J::s(dpath(tcx, imp)));
                let self_ty = tcx.type_of(imp).instantiate_identity().skip_norm_wip();
                o.put("self_ty", J::s(tstr(self_ty)));
                if let ty::Adt(def, _) = self_ty.kind() {
                    o.put("self_adt", J::s(dpath(tcx, def.did())));
                }
                if let Some(tr) = tcx.impl_opt_trait_ref(imp) {
                    let tr = tr.instantiate_identity().skip_norm_wip();
                    o.put("trait", J::s(dpath(tcx, tr.def_id)));
                    o.put(
                        "trait_full",
                        J::s(with_crate_prefix!(with_no_visible_paths!(with_no_trimmed_paths!(tr.to_string())))),
                    );
                }
            } else if let Some(tr) = tcx.trait_of_assoc(did) {
                o.put("trait_def", J::s(dpath(tcx, tr)));
            }
        }
    }
    o.put("argc", J::Raw(body.arg_count.to_string()));

    // locals
    let mut locals = vec![];
    for (_l, decl) in body.local_decls.iter_enumerated() {
        locals.push(J::s(tstr(decl.ty)));
    }
    o.put("locals", J::Arr(locals));
    // variable names
    let mut vars = J::obj();
    for vdi in body.var_debug_info.iter() {
        if let mir::VarDebugInfoContents::Place(p) = &vdi.value {
            vars.put(&cx.place(p), J::s(vdi.name.to_string()));
        }
    }
    o.put("vars", vars);

    let guard_locals: BTreeSet<usize> = body
        .local_decls
        .iter_enumerated()
        .filter(|(_, d)| is_guardish(&tstr(d.ty)))
        .map(|(l, _)| l.as_usize())
        .collect();

    let mut blocks = vec![];
    for (bb, data) in body.basic_blocks.iter_enumerated() {
        let _: BasicBlock = bb;
        let mut b = J::obj();
        let mut stmts = vec![];
        for st in data.statements.iter() {
            match &st.kind {
                StatementKind::Assign(bx) => {
                    let (p, rv) = &**bx;
                    let mut s = cx.rvalue(rv);
                    s.put("d", J::s(cx.place(p)));
                    let (_f, l, _c, _h) = span_loc(tcx, st.source_info.span);
                    s.put("l", J::Raw(l.to_string()));
                    stmts.push(s);
                }
                StatementKind::SetDiscriminant {
                    place,
                    variant_index,
                } => {
                    let mut s = J::obj();
                    s.put("k", J::s("setdiscr".into()));
                    s.put("d", J::s(cx.place(place)));
                    s.put("v", J::Raw(variant_index.as_usize().to_string()));
                    stmts.push(s);
                }
                StatementKind::StorageDead(l) => {
                    if guard_locals.contains(&l.as_usize()) {
                        let mut s = J::obj();
                        s.put("k", J::s("dead".into()));
                        s.put("d", J::s(l.as_usize().to_string()));
                        stmts.push(s);
                    }
                }
                _ => {}
            }
        }
        b.put("s", J::Arr(stmts));
        if data.is_cleanup {
            b.put("cleanup", J::Bool(true));
        }
        if let Some(t) = &data.terminator {
            b.put("term", cx.terminator(t));
        }
        blocks.push(b);
    }
    o.put("blocks", J::Arr(blocks));
    out.push(o.to_string());
}

fn dump_items<'tcx>(tcx: TyCtxt<'tcx>, out: &mut Vec<String>) {
    // ADTs, impls, traits of the local crate.
    for id in tcx.hir_crate_items(()).definitions() {
        let did = id.to_def_id();
        let kind = tcx.def_kind(did);
        match kind {
            DefKind::Struct | DefKind::Enum | DefKind::Union => {
                let def = tcx.adt_def(did);
                let mut o = J::obj();
                o.put("t", J::s("adt".into()));
                o.put("path", J::s(dpath(tcx, did)));
                o.put("kind", J::s(format!("{:?}", kind)));
                o.put("vis", J::s(format!("{:?}", tcx.visibility(did))));
                let (file, line, _c, _h) = span_loc(tcx, tcx.def_span(did));
                o.put("file", J::s(file));
                o.put("line", J::Raw(line.to_string()));
                let mut vs = vec![];
                let discrs: Vec<_> = if def.is_enum() {
                    def.discriminants(tcx).map(|(_, d)| d.val).collect()
                } else {
                    vec![]
                };
                for (i, v) in def.variants().iter().enumerate() {
                    let mut vo = J::obj();
                    vo.put("name", J::s(v.name.to_string()));
                    if let Some(d) = discrs.get(i) {
                        vo.put("discr", J::Raw(d.to_string()));
                    }
                    let mut fs = vec![];
                    for f in v.fields.iter() {
                        let fty = tcx.type_of(f.did).instantiate_identity().skip_norm_wip();
                        let mut fo = J::obj();
                        fo.put("name", J::s(f.name.to_string()));
                        fo.put("ty", J::s(tstr(fty)));
                        let mut adts = BTreeSet::new();
                        adts_in(tcx, fty, &mut adts);
                        fo.put(
                            "adts",
                            J::Arr(adts.into_iter().map(J::s).collect()),
                        );
                        fo.put("vis", J::s(format!("{:?}", f.vis)));
                        fs.push(fo);
                    }
                    vo.put("fields", J::Arr(fs));
                    vs.push(vo);
                }
                o.put("variants", J::Arr(vs));
                out.push(o.to_string());
            }
            DefKind::Impl { .. } => {
                let mut o = J::obj();
                o.put("t", J::s("impl".into()));
                o.put("path", J::s(dpath(tcx, did)));
                let self_ty = tcx.type_of(did).instantiate_identity().skip_norm_wip();
                o.put("self_ty", J::s(tstr(self_ty)));
                if let ty::Adt(def, _) = self_ty.kind() {
                    o.put("self_adt", J::s(dpath(tcx, def.did())));
                }
                if let Some(tr) = tcx.impl_opt_trait_ref(did) {
                    let tr = tr.instantiate_identity().skip_norm_wip();
                    o.put("trait", J::s(dpath(tcx, tr.def_id)));
                    o.put(
                        "trait_full",
                        J::s(with_crate_prefix!(with_no_visible_paths!(with_no_trimmed_paths!(tr.to_string())))),
                    );
                    let mut adts = BTreeSet::new();
                    for a in tr.args.iter().skip(1) {
                        if let Some(t) = a.as_type() {
                            adts_in(tcx, t, &mut adts);
                        }
                    }
                    o.put(
                        "trait_arg_adts",
                        J::Arr(adts.into_iter().map(J::s).collect()),
                    );
                }
                let (file, line, _c, _h) = span_loc(tcx, tcx.def_span(did));
                o.put("file", J::s(file));
                o.put("line", J::Raw(line.to_string()));
                if tcx.def_span(did).from_expansion() {
                    o.put("exp", J::Bool(true));
                    if let Some(m) = macro_name(tcx.def_span(did)) {
                        o.put("macro", J::s(m));
                    }
                }
                let mut items = vec![];
                for it in tcx.associated_items(did).in_definition_order() {
                    let mut io = J::obj();
                    io.put("name", J::s(it.opt_name().map(|s| s.to_string()).unwrap_or_default()));
                    io.put("path", J::s(dpath(tcx, it.def_id)));
                    io.put("kind", J::s(format!("{:?}", it.tag())));
                    items.push(io);
                }
                o.put("items", J::Arr(items));
                out.push(o.to_string());
            }
            DefKind::Trait => {
                let mut o = J::obj();
                o.put("t", J::s("trait".into()));
                o.put("path", J::s(dpath(tcx, did)));
                let mut items = vec![];
                for it in tcx.associated_items(did).in_definition_order() {
                    let mut io = J::obj();
                    io.put("name", J::s(it.opt_name().map(|s| s.to_string()).unwrap_or_default()));
                    io.put("path", J::s(dpath(tcx, it.def_id)));
                    io.put("kind", J::s(format!("{:?}", it.tag())));
                    io.put(
                        "has_default",
                        J::Bool(it.defaultness(tcx).has_value()),
                    );
                    items.push(io);
                }
                o.put("items", J::Arr(items));
                out.push(o.to_string());
            }
            DefKind::Const { .. } | DefKind::AssocConst { .. } => {
                // integer constants (tag tables)
                let ty = tcx.type_of(did).instantiate_identity().skip_norm_wip();
                if ty.is_integral() {
                    if let Ok(val) = tcx.const_eval_poly(did) {
                        if let Some(i) = val.try_to_scalar_int() {
                            let mut o = J::obj();
                            o.put("t", J::s("const".into()));
                            o.put("path", J::s(dpath(tcx, did)));
                            o.put("ty", J::s(tstr(ty)));
                            o.put(
                                "i",
                                J::Raw(i.to_bits_unchecked().to_string()),
                            );
                            out.push(o.to_string());
                        }
                    }
                }
            }
            _ => {}
        }
    }
}

impl Callbacks for Cb {
    fn after_expansion<'tcx>(
        &mut self,
        _c: &Compiler,
        tcx: TyCtxt<'tcx>,
    ) -> Compilation {
        let crate_name = tcx.crate_name(LOCAL_CRATE).to_string();
        let mut out: Vec<String> = Vec::new();
        {
            let mut o = J::obj();
            o.put("t", J::s("crate".into()));
            o.put("name", J::s(crate_name.clone()));
            let types: Vec<J> = tcx
                .crate_types()
                .iter()
                .map(|t| J::s(format!("{:?}", t)))
                .collect();
            o.put("crate_types", J::Arr(types));
            o.put("is_test", J::Bool(tcx.sess.is_test_crate()));
            out.push(o.to_string());
        }
        // Clone every built MIR body first: later queries (const eval,
        // opaque type reveal during callee resolution) may run borrowck,
        // which steals mir_built.
        let mut bodies: Vec<(LocalDefId, Body<'tcx>)> = Vec::new();
        for ldid in tcx.hir_body_owners() {
            let kind = tcx.def_kind(ldid.to_def_id());
            match kind {
                DefKind::Fn
                | DefKind::AssocFn
                | DefKind::Closure
                | DefKind::SyntheticCoroutineBody => {}
                _ => continue,
            }
            let steal = tcx.mir_built(ldid);
            let b = if steal.is_stolen() {
                // borrowck of this item already ran (it defines an opaque
                // type someone needed); mir_promoted is the same CFG with
                // promoted constants moved out.
                let (p, _) = tcx.mir_promoted(ldid);
                if p.is_stolen() {
                    continue;
                }
                p.borrow().clone()
            } else {
                steal.borrow().clone()
            };
            bodies.push((ldid, b));
        }
        for (ldid, body) in bodies.iter() {
            dump_body(tcx, *ldid, body, &mut out);
        }
        drop(bodies);
        dump_items(tcx, &mut out);
        let stable = tcx.stable_crate_id(LOCAL_CRATE);
        let ctype = if tcx.sess.is_test_crate() {
            "test".to_string()
        } else {
            tcx.crate_types()
                .first()
                .map(|t| format!("{:?}", t).to_lowercase())
                .unwrap_or_default()
        };
        let fname = format!(
            "{}/{}-{}-{:x}.jsonl",
            self.out_dir,
            crate_name,
            ctype,
            stable.as_u64()
        );
        let tmp = format!("{}.tmp{}", fname, std::process::id());
        let mut buf = String::new();
        for l in out {
            buf.push_str(&l);
            buf.push('\n');
        }
        if let Ok(mut f) = std::fs::File::create(&tmp) {
            let _ = f.write_all(buf.as_bytes());
            let _ = f.flush();
            let _ = std::fs::rename(&tmp, &fname);
        }
        Compilation::Continue
    }
}

struct NoCb;
impl Callbacks for NoCb {}

fn main() {
    let mut args: Vec<String> = std::env::args().collect();
    // wrapper mode: argv[1] is the path of the real rustc
    if args.len() > 1
        && (args[1].ends_with("rustc") || args[1].contains("/rustc"))
    {
        args.remove(1);
    }
    let out_dir = std::env::var("SOSFACTS_OUT").ok();
    // only analyse when asked to and when this is a real compilation
    // (cargo also calls the wrapper with `-vV` / `--print` probes)
    let is_probe = args.iter().any(|a| {
        a == "-vV" || a == "-V" || a == "--version" || a.starts_with("--print")
    });
    let only: Option<Vec<String>> = std::env::var("SOSFACTS_ONLY")
        .ok()
        .map(|s| s.split(',').map(|x| x.to_string()).collect());
    let crate_name = args
        .iter()
        .position(|a| a == "--crate-name")
        .and_then(|i| args.get(i + 1))
        .cloned();
    let mut enabled = out_dir.is_some() && !is_probe;
    if let (Some(only), Some(cn)) = (&only, &crate_name) {
        if !only.iter().any(|o| o == cn) {
            enabled = false;
        }
    }
    if crate_name.as_deref() == Some("build_script_build") {
        enabled = false;
    }
    if enabled {
        let dir = out_dir.unwrap();
        let _ = std::fs::create_dir_all(&dir);
        let mut cb = Cb { out_dir: dir };
        rustc_driver::run_compiler(&args, &mut cb);
    } else {
        let mut cb = NoCb;
        rustc_driver::run_compiler(&args, &mut cb);
    }
}
