// Minimal JSON builder (no dependencies).
use std::fmt::Write;

pub enum J {
    Bool(bool),
    Raw(String),
    Str(String),
    Arr(Vec<J>),
    Obj(Vec<(String, J)>),
}

impl J {
    pub fn obj() -> J {
        J::Obj(Vec::new())
    }
    pub fn s(s: String) -> J {
        J::Str(s)
    }
    pub fn put(&mut self, k: &str, v: J) {
        if let J::Obj(items) = self {
            items.push((k.to_string(), v));
        }
    }
    fn esc(s: &str, out: &mut String) {
        out.push('"');
        for c in s.chars() {
            match c {
                '"' => out.push_str("\\\""),
                '\\' => out.push_str("\\\\"),
                '\n' => out.push_str("\\n"),
                '\r' => out.push_str("\\r"),
                '\t' => out.push_str("\\t"),
                c if (c as u32) < 0x20 => {
                    let _ = write!(out, "\\u{:04x}", c as u32);
                }
                c => out.push(c),
            }
        }
        out.push('"');
    }
    fn write(&self, out: &mut String) {
        match self {
            J::Bool(b) => out.push_str(if *b { "true" } else { "false" }),
            J::Raw(r) => out.push_str(r),
            J::Str(s) => J::esc(s, out),
            J::Arr(a) => {
                out.push('[');
                for (i, x) in a.iter().enumerate() {
                    if i > 0 {
                        out.push(',');
                    }
                    x.write(out);
                }
                out.push(']');
            }
            J::Obj(o) => {
                out.push('{');
                for (i, (k, v)) in o.iter().enumerate() {
                    if i > 0 {
                        out.push(',');
                    }
                    J::esc(k, out);
                    out.push(':');
                    v.write(out);
                }
                out.push('}');
            }
        }
    }
    pub fn to_string(&self) -> String {
        let mut s = String::new();
        self.write(&mut s);
        s
    }
}
