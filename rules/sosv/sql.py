"""Extract SQL statements built with sql_query_builder from MIR facts."""
import re
from . import cfg, idioms
from .flow import FlowGraph

BUILDER_TY = re.compile(r"^&?(?:mut )?sql_query_builder::")


class Stmt:
    def __init__(self):
        self.fn = None
        self.body = None
        self.kind = None            # Select / Delete / Update / Insert
        self.clauses = []           # (method, [str consts], [callee names], block)
        self.first_block = None

    def texts(self, *methods):
        out = []
        for m, strs, _calls, _b in self.clauses:
            if not methods or m in methods:
                out.extend(strs)
        return out

    def callees(self, *methods):
        out = []
        for m, _s, calls, _b in self.clauses:
            if not methods or m in methods:
                out.extend(calls)
        return out

    def where(self):
        return cfg.loc(self.body, self.first_block)

    def describe(self):
        return "%s %s" % (self.kind, "; ".join("%s(%s%s)" % (
            m, ",".join(repr(s) for s in strs), ("," + ",".join("<" + c + ">" for c in calls)) if calls else "")
            for m, strs, calls, _b in self.clauses))


def _find(parent, x):
    while parent.setdefault(x, x) != x:
        parent[x] = parent[parent[x]]
        x = parent[x]
    return x


def statements(ws, fn):
    """All SQL builder statements in a logical function."""
    out = []
    fg = None
    for body in fn.bodies:
        btl = [i for i, t in enumerate(body.locals) if BUILDER_TY.match(t)]
        if not btl:
            continue
        btl = set(btl)
        parent = {}
        calls = []
        live = cfg.live_blocks(body)
        for bi, blk in enumerate(body.blocks):
            if bi not in live:
                continue
            for s in blk["s"]:
                if s.get("k") in ("use", "ref", "refmut") and s.get("d") is not None:
                    dl = cfg.place_local(s["d"])
                    if dl in btl:
                        src = s.get("p") or (cfg.op_place(s["ops"][0]) if s.get("ops") else None)
                        if src is not None:
                            sl = cfg.place_local(src)
                            if sl in btl:
                                parent[_find(parent, dl)] = _find(parent, sl)
            t = blk.get("term")
            if not t or t["k"] != "call":
                continue
            dl = cfg.place_local(t["dest"])
            arg_b = [cfg.op_local(a) for a in t["args"] if cfg.op_local(a) in btl]
            if dl in btl or arg_b:
                ls = ([dl] if dl in btl else []) + arg_b
                for x in ls[1:]:
                    parent[_find(parent, ls[0])] = _find(parent, x)
                calls.append((bi, t, ls[0]))
        comps = {}
        for bi, t, l in calls:
            comps.setdefault(_find(parent, l), []).append((bi, t))
        for root, cs in comps.items():
            st = Stmt()
            st.fn, st.body = fn, body
            cs.sort(key=lambda x: x[0])
            st.first_block = cs[0][0]
            tys = {body.locals[l] for l in btl if _find(parent, l) == root}
            for ty in tys:
                m = re.search(r"sql_query_builder::\w+::(?:\w+::)?(Select|Delete|Update|Insert)", ty)
                if m:
                    st.kind = m.group(1)
            if fg is None:
                fg = FlowGraph(ws, fn)
            for bi, t in cs:
                m = idioms.cname(t)
                if m in ("new", "as_string", "to_string", "debug", "print"):
                    continue
                strs, callees = [], []
                for a in t["args"]:
                    al = cfg.op_local(a)
                    if al in btl:
                        continue
                    sl = fg.back_from_operand(body, a)
                    for c in sl.consts:
                        if "s" in c:
                            strs.append(c["s"])
                    for (_cb, _ci, ct) in sl.calls:
                        n = idioms.cname(ct)
                        if not idioms.is_noise(ct) and n not in ("format", "must_use", "new", "new_display", "new_debug", "as_str_", "to_string", "as_string"):
                            callees.append(n)
                st.clauses.append((m, strs, sorted(set(callees)), bi))
            if st.clauses:
                out.append(st)
    return out
