"""CFG utilities over the MIR facts of one body.

Edges: only real control flow. Imaginary targets of FalseEdge and unwind
edges are not followed (cleanup blocks are never entered), the drop edge of a
Yield (future dropped while suspended) is not followed either.
"""
from collections import deque


def place_local(p):
    """Base local of a place string ('12.*.f3:name' -> 12)."""
    i = p.find(".")
    return int(p if i < 0 else p[:i])


def place_proj(p):
    """Projection elements of a place string as a list."""
    i = p.find(".")
    if i < 0:
        return []
    return p[i + 1:].split(".")


def place_fields(p):
    """Names of the field projections in a place string."""
    out = []
    for e in place_proj(p):
        if e.startswith("f") and ":" in e:
            out.append(e.split(":", 1)[1])
    return out


def op_place(o):
    """Place string of a copy/move operand, None for constants."""
    if isinstance(o, str) and o and o[0] in "cm":
        return o[1:]
    return None


def op_local(o):
    p = op_place(o)
    return None if p is None else place_local(p)


def op_const(o):
    return o if isinstance(o, dict) else None


_succ_cache = {}


def _covers_all_variants(blk, t):
    """A switch on an enum discriminant that lists every variant cannot take
    its `otherwise` edge (match lowering reuses a later arm's block for it)."""
    l = op_local(t["d"])
    if l is None:
        return False
    for s in blk["s"]:
        if s.get("d") == str(l) and s.get("k") == "discr" and "map" in s:
            have = {str(v) for v, _bb in t["vals"]}
            return set(s["map"].keys()) <= have
    return False


def _known_switch_target(blk, t):
    """A switch on the discriminant of a value built in the same block with a
    known variant (the `if let Some(__ret) = None::<T>` prologue emitted by
    #[async_trait]) has one feasible target."""
    l = op_local(t["d"])
    if l is None:
        return None
    ds = None
    for s in blk["s"]:
        if s.get("d") == str(l) and s.get("k") == "discr":
            ds = s
    if ds is None or "map" not in ds or "." in ds["p"]:
        return None
    src = ds["p"]
    variant = None
    for s in blk["s"]:
        if s.get("d") == src and s.get("k") == "agg" and s.get("ak") == "adt":
            variant = s.get("variant")
    if variant is None:
        return None
    val = None
    for v, name in ds["map"].items():
        if name == variant:
            val = int(v)
    if val is None:
        return None
    for v, bb in t["vals"]:
        if v == val:
            return bb
    return t["otherwise"]


def succs(body):
    key = id(body)
    c = _succ_cache.get(key)
    if c is not None and c[0] is body:
        return c[1]
    out = []
    for b in body.blocks:
        t = b.get("term")
        s = []
        if t:
            k = t["k"]
            if k == "switch":
                known = _known_switch_target(b, t)
                if known is not None:
                    s.append(known)
                else:
                    for _v, bb in t["vals"]:
                        if bb not in s:
                            s.append(bb)
                    if t["otherwise"] not in s and not _covers_all_variants(b, t):
                        s.append(t["otherwise"])
            elif k in ("goto", "drop", "assert", "yield", "false_edge"):
                s.append(t["t"])
            elif k == "call":
                if "t" in t:
                    s.append(t["t"])
        out.append(s)
    _succ_cache[key] = (body, out)
    return out


def preds(body):
    sc = succs(body)
    out = [[] for _ in sc]
    for i, ss in enumerate(sc):
        for s in ss:
            out[s].append(i)
    return out


def reach(body, starts, cut_blocks=(), cut_edges=()):
    """Blocks reachable from `starts` (inclusive) without entering cut blocks
    or following cut edges."""
    sc = succs(body)
    cut_blocks = set(cut_blocks)
    cut_edges = set(cut_edges)
    seen = set()
    dq = deque()
    for s in starts:
        if s not in cut_blocks and s not in seen:
            seen.add(s)
            dq.append(s)
    while dq:
        b = dq.popleft()
        for n in sc[b]:
            if n in seen or n in cut_blocks or (b, n) in cut_edges:
                continue
            seen.add(n)
            dq.append(n)
    return seen


def reach_after(body, block, cut_blocks=(), cut_edges=()):
    """Blocks reachable strictly after `block` completes."""
    return reach(body, succs(body)[block], cut_blocks, cut_edges)


def find_path(body, starts, goals, cut_blocks=(), cut_edges=()):
    """Shortest block path from any start to any goal, or None."""
    sc = succs(body)
    cut_blocks = set(cut_blocks)
    cut_edges = set(cut_edges)
    goals = set(goals)
    prev = {}
    dq = deque()
    for s in starts:
        if s in cut_blocks or s in prev:
            continue
        prev[s] = None
        dq.append(s)
    while dq:
        b = dq.popleft()
        if b in goals:
            out = []
            while b is not None:
                out.append(b)
                b = prev[b]
            return list(reversed(out))
        for n in sc[b]:
            if n in prev or n in cut_blocks or (b, n) in cut_edges:
                continue
            prev[n] = b
            dq.append(n)
    return None


def path_lines(body, path):
    """Source lines visited along a block path (deduplicated, in order)."""
    out = []
    for b in path or []:
        t = body.blocks[b].get("term")
        if t and t.get("l") and t["l"] > 1:
            if not out or out[-1] != t["l"]:
                out.append(t["l"])
    return out


def callee_names(t):
    """All names under which a call terminator can be matched."""
    return [t.get("resolved"), t.get("callee"), t.get("resolved_full"), t.get("callee_full")]


def call_matches(t, rx):
    for n in callee_names(t):
        if n and rx.search(n):
            return True
    return False


def callsites(body, rx=None, pred=None):
    out = []
    for i, t in body.calls():
        if rx is not None and not call_matches(t, rx):
            continue
        if pred is not None and not pred(t):
            continue
        out.append(i)
    return out


def live_blocks(body):
    """Blocks reachable from the entry."""
    return reach(body, [0])


def defs_of(body):
    """local -> list of (block, stmt-or-term, is_term) that assign it (whole
    or partial)."""
    out = {}
    for i, b in enumerate(body.blocks):
        for s in b["s"]:
            d = s.get("d")
            if d is None or s["k"] == "dead":
                continue
            out.setdefault(place_local(d), []).append((i, s, False))
        t = b.get("term")
        if t and t["k"] == "call" and "dest" in t:
            out.setdefault(place_local(t["dest"]), []).append((i, t, True))
        if t and t["k"] == "yield" and "ra" in t:
            out.setdefault(place_local(t["ra"]), []).append((i, t, True))
    return out


def return_locals(body):
    """Locals that are only moved into the return place (transitively)."""
    d = defs_of(body)
    rl = {0}
    changed = True
    while changed:
        changed = False
        for l in list(rl):
            for (_b, s, is_term) in d.get(l, []):
                if is_term:
                    continue
                if s["k"] == "use" and s.get("d") == str(l):
                    src = op_place(s["ops"][0])
                    if src is not None and "." not in src:
                        sl = int(src)
                        if sl not in rl and sl > body.argc:
                            rl.add(sl)
                            changed = True
    return rl


class Exit:
    __slots__ = ("block", "kind", "variant", "adt", "stmt", "is_term", "payload")

    def __repr__(self):
        return "<Exit bb%d %s %s>" % (self.block, self.kind, self.variant or "")


def exits(body):
    """Classify the points where the return value is produced.

    kind: 'ok' (Result::Ok aggregate), 'err' (Result::Err aggregate or `?`
    propagation through from_residual), 'value' (other aggregate, variant and
    adt recorded), 'call' (result of another call), 'other'.
    """
    d = defs_of(body)
    rl = return_locals(body)
    live = live_blocks(body)
    out = []
    for l in rl:
        for (b, s, is_term) in d.get(l, []):
            if b not in live:
                continue
            if not is_term and s.get("d") != str(l):
                continue  # partial assignment
            e = Exit()
            e.block, e.stmt, e.is_term = b, s, is_term
            e.variant = e.adt = e.payload = None
            if is_term:
                if s["k"] == "call" and (s.get("method") == "from_residual"):
                    e.kind = "err"
                    e.variant = "?"
                elif s["k"] == "call":
                    e.kind = "call"
                else:
                    continue
            else:
                k = s["k"]
                if k == "use":
                    src = op_place(s["ops"][0])
                    if src is not None and "." not in src and int(src) in rl:
                        continue  # pure move between return locals
                    e.kind = "other"
                elif k == "agg" and s.get("ak") == "adt":
                    e.adt = s["adt"]
                    e.variant = s["variant"]
                    e.payload = s["ops"]
                    if s["adt"] == "core::result::Result":
                        e.kind = "ok" if s["variant"] == "Ok" else "err"
                    else:
                        e.kind = "value"
                else:
                    e.kind = "other"
            out.append(e)
    out.sort(key=lambda e: e.block)
    return out


def discr_def(body, bi, local):
    """The `discr` statement defining `local`, searched in block bi first and
    then everywhere."""
    for s in reversed(body.blocks[bi]["s"]):
        if s.get("d") == str(local) and s["k"] == "discr":
            return s
    for b in body.blocks:
        for s in b["s"]:
            if s.get("d") == str(local) and s["k"] == "discr":
                return s
    return None


class EnumSwitch:
    __slots__ = ("block", "enum", "place", "targets", "otherwise", "otherwise_live")

    def __repr__(self):
        return "<EnumSwitch bb%d %s %s>" % (self.block, self.enum, self.targets)


def enum_switch(body, bi):
    """Decode a SwitchInt over an enum discriminant; None if it is not one."""
    t = body.blocks[bi].get("term")
    if not t or t["k"] != "switch":
        return None
    l = op_local(t["d"])
    if l is None:
        return None
    ds = discr_def(body, bi, l)
    if ds is None or "map" not in ds:
        return None
    es = EnumSwitch()
    es.block = bi
    es.enum = ds.get("enum")
    es.place = ds["p"]
    es.targets = {}
    for v, bb in t["vals"]:
        name = ds["map"].get(str(v))
        if name is not None:
            es.targets[name] = bb
    es.otherwise = t["otherwise"]
    ot = body.blocks[es.otherwise].get("term")
    es.otherwise_live = not (ot and ot["k"] == "unreachable")
    return es


def enum_switches(body, enum_rx=None):
    out = []
    live = live_blocks(body)
    for i in range(len(body.blocks)):
        if i not in live:
            continue
        es = enum_switch(body, i)
        if es is None:
            continue
        if enum_rx is not None and not enum_rx.search(es.enum or ""):
            continue
        out.append(es)
    return out


def variants_covered(es, all_variants):
    """Variants that reach the `otherwise` target of an enum switch."""
    if not es.otherwise_live:
        return []
    return [v for v in all_variants if v not in es.targets]


class BoolSwitch:
    __slots__ = ("block", "local", "true_t", "false_t", "defn", "def_is_term", "def_block")


def bool_switch(body, bi):
    t = body.blocks[bi].get("term")
    if not t or t["k"] != "switch" or t.get("dty") != "bool":
        return None
    l = op_local(t["d"])
    if l is None:
        return None
    bs = BoolSwitch()
    bs.block = bi
    bs.local = l
    bs.false_t = None
    bs.true_t = t["otherwise"]
    for v, bb in t["vals"]:
        if v == 0:
            bs.false_t = bb
        else:
            bs.true_t = bb
    if bs.false_t is None:
        bs.false_t = t["otherwise"]
    bs.defn = None
    bs.def_is_term = False
    bs.def_block = None
    alld = defs_of(body)
    d = alld.get(l, [])
    # follow `let ok = a == b; if ok` / `if !ok`: a single copy or negation
    # of another single-definition local is looked through (targets swapped
    # for a negation), so rules see the comparison itself
    depth = 0
    while len(d) == 1 and not d[0][2] and depth < 6:
        st = d[0][1]
        src = None
        if st.get("k") == "use":
            src = op_place(st["ops"][0])
        elif st.get("k") == "un" and st.get("op") == "Not":
            src = op_place(st["ops"][0])
        if src is None or "." in src:
            break
        nd = alld.get(place_local(src), [])
        if len(nd) != 1:
            break
        if st.get("k") == "un":
            bs.true_t, bs.false_t = bs.false_t, bs.true_t
        d = nd
        depth += 1
    if d:
        bs.def_block, bs.defn, bs.def_is_term = d[-1] if len(d) == 1 else d[0]
    return bs


def code_body(ws, fn):
    """The body that holds a function's code: for async fns and
    #[async_trait] methods the async block, else the root body."""
    main = fn.main
    cur = main
    for _ in range(3):
        nxt = None
        nlive = 0
        for b in cur.blocks:
            if b.get("cleanup"):
                continue
            nlive += 1
            for s in b["s"]:
                if s.get("k") == "agg" and s.get("ak") == "coroutine":
                    nxt = s.get("def")
        if nxt and nlive <= 8 and nxt in ws.bodies:
            cur = ws.bodies[nxt]
        else:
            break
    return cur


def loc(body, block=None):
    if block is None:
        return "%s:%s" % (body.file, body.line)
    t = body.blocks[block].get("term") or {}
    l = t.get("l")
    if (not l or l <= 1) and body.blocks[block]["s"]:
        l = body.blocks[block]["s"][0].get("l")
    return "%s:%s" % (body.file, l)


def _resolve_bool(body, place, target, depth=0):
    """If `place` is a copy / negation / tuple field of local `target`,
    return the polarity (True = same, False = negated), else None."""
    if depth > 6 or place is None:
        return None
    l = place_local(place)
    proj = place_proj(place)
    d = defs_of(body).get(l, [])
    if not proj:
        if l == target:
            return True
        whole = [x for x in d if not x[2] and x[1].get("d") == str(l)]
        if len(whole) != 1:
            return None
        s = whole[0][1]
        if s["k"] == "use":
            return _resolve_bool(body, op_place(s["ops"][0]), target, depth + 1)
        if s["k"] == "un" and s.get("op") == "Not":
            r = _resolve_bool(body, op_place(s["ops"][0]), target, depth + 1)
            return None if r is None else (not r)
        return None
    m = None
    if len(proj) == 1 and proj[0].startswith("f") and ":" in proj[0]:
        try:
            m = int(proj[0][1:].split(":", 1)[0])
        except ValueError:
            m = None
    if m is None:
        return None
    whole = [x for x in d if not x[2] and x[1].get("d") == str(l) and x[1].get("k") == "agg" and x[1].get("ak") == "tuple"]
    if len(whole) != 1 or m >= len(whole[0][1]["ops"]):
        return None
    return _resolve_bool(body, op_place(whole[0][1]["ops"][m]), target, depth + 1)


def infeasible_edges(body, local, value):
    """CFG edges that cannot be taken when bool local `local` has `value`."""
    out = set()
    for i in live_blocks(body):
        t = body.blocks[i].get("term")
        if not t or t["k"] != "switch" or t.get("dty") != "bool":
            continue
        pol = _resolve_bool(body, op_place(t["d"]), local)
        if pol is None:
            continue
        operand_true = value if pol else (not value)
        false_t = None
        for v, bb in t["vals"]:
            if v == 0:
                false_t = bb
        true_t = t["otherwise"]
        if false_t is None:
            continue
        out.add((i, false_t) if operand_true else (i, true_t))
    return out
