"""Repository idioms on top of the CFG: await/? desugaring, call naming."""
import re
from collections import deque
from . import cfg

EVENTLOG = "sos_core::events::event_log::EventLog"


def is_noise(t):
    """Calls introduced by `.await` / `?` / `for` desugaring or auto-deref."""
    m = t.get("macro") or ""
    if m.startswith("desugar:"):
        return True
    me = t.get("method")
    if me in ("deref", "deref_mut") and t.get("trait", "").startswith("core::ops::deref"):
        return True
    return False


LOG_MACROS = {"debug", "trace", "info", "warn", "error", "event", "span", "debug_span", "trace_span",
              "info_span", "warn_span", "error_span", "log", "enabled", "instrument"}


def is_logging(t):
    """Calls generated inside a tracing/log macro invocation."""
    if not t.get("exp"):
        return False
    m = t.get("macro") or ""
    seg = m.rsplit("::", 1)[-1]
    return seg in LOG_MACROS and (m.startswith("tracing::") or m.startswith("log::") or "::" not in m)


def last_seg(path):
    if not path:
        return ""
    # strip generic args at the end and take the last `::` segment
    depth = 0
    end = len(path)
    i = len(path) - 1
    # remove trailing ::<...>
    p = path
    while p.endswith(">"):
        depth = 0
        j = len(p) - 1
        while j >= 0:
            if p[j] == ">":
                depth += 1
            elif p[j] == "<":
                depth -= 1
                if depth == 0:
                    break
            j -= 1
        if j > 1 and p[j - 2:j] == "::":
            p = p[:j - 2]
        else:
            break
    k = p.rfind("::")
    return p[k + 2:] if k >= 0 else p


def cname(t):
    """Short callee name of a call terminator (method or fn name)."""
    if t.get("method"):
        return t["method"]
    return last_seg(t.get("callee") or "")


def is_trait_call(t, trait, method=None):
    """Call of a method of `trait` (any dispatch: resolved impl, dyn, param)."""
    if t.get("trait") != trait:
        return False
    return method is None or t.get("method") == method


def real_calls(body, live=None):
    for i, t in body.calls():
        if live is not None and i not in live:
            continue
        if not is_noise(t) and not is_logging(t):
            yield i, t


class AwaitTry:
    __slots__ = ("call", "branch", "cont", "brk")


def await_try(body, bi):
    """For the call in block `bi`, find the `?` applied to its (awaited)
    result: the first Try::branch reached through desugaring noise only."""
    sc = cfg.succs(body)
    seen = {bi}
    dq = deque(sc[bi])
    while dq:
        b = dq.popleft()
        if b in seen:
            continue
        seen.add(b)
        t = body.blocks[b].get("term")
        if t and t["k"] == "call":
            if t.get("method") == "branch" and (t.get("macro") or "") == "desugar:QuestionMark":
                at = AwaitTry()
                at.call, at.branch = bi, b
                at.cont = at.brk = None
                nb = t.get("t")
                es = cfg.enum_switch(body, nb) if nb is not None else None
                if es:
                    at.cont = es.targets.get("Continue")
                    at.brk = es.targets.get("Break")
                return at
            if not is_noise(t) and cname(t) not in RESULT_ADAPTORS:
                continue  # another real call: stop this path
        for n in sc[b]:
            if n not in seen:
                dq.append(n)
    return None


# Calls that pass a Result through unchanged in its Ok/Err shape.
RESULT_ADAPTORS = {"map_err"}


def success_start(body, bi):
    """Blocks from which execution continues once the call in `bi` has
    completed successfully (after `.await?` if present)."""
    at = await_try(body, bi)
    if at and at.cont is not None:
        return [at.cont], at
    return cfg.succs(body)[bi], None


def failing_call_of_exit(body, exit_block):
    """For an Err exit produced by `?` (from_residual), the real call whose
    result was tested: walk predecessors back through noise."""
    pr = cfg.preds(body)
    seen = {exit_block}
    dq = deque(pr[exit_block])
    while dq:
        b = dq.popleft()
        if b in seen:
            continue
        seen.add(b)
        t = body.blocks[b].get("term")
        if t and t["k"] == "call" and not is_noise(t):
            return b, t
        for p in pr[b]:
            if p not in seen:
                dq.append(p)
    return None, None


def fn_of_body(ws, body):
    return ws.fns.get(body.root)


def callers_of(ws, rx, exclude_crates=()):
    """(fn, body, block, term) for every call whose callee matches rx."""
    out = []
    for f in ws.fns.values():
        if f.crate in exclude_crates:
            continue
        for b, i, t in f.calls():
            if cfg.call_matches(t, rx):
                out.append((f, b, i, t))
    return out


TEST_CRATES = ("sos_test_utils", "sos_unit_tests", "sos_integration_tests",
               "sos_command_line_tests")


def short(path, n=110):
    return path if len(path) <= n else path[:n] + "…"


def result_branches(body, bi):
    """For the call in block `bi` whose (awaited) Result is either tested
    with `?` or matched: ([ok start blocks], [err start blocks]) or None."""
    at = await_try(body, bi)
    if at and at.cont is not None and at.brk is not None:
        return [at.cont], [at.brk]
    # match on the result: first enum switch over Result reached through noise
    sc = cfg.succs(body)
    seen = {bi}
    dq = deque(sc[bi])
    while dq:
        b = dq.popleft()
        if b in seen:
            continue
        seen.add(b)
        es = cfg.enum_switch(body, b)
        if es and es.enum == "core::result::Result" and "Ok" in es.targets and "Err" in es.targets:
            return [es.targets["Ok"]], [es.targets["Err"]]
        # `if let` / `while let` on one variant: the other one is `otherwise`
        if es and es.enum == "core::result::Result" and es.otherwise_live and len(es.targets) == 1:
            if "Ok" in es.targets:
                return [es.targets["Ok"]], [es.otherwise]
            if "Err" in es.targets:
                return [es.otherwise], [es.targets["Err"]]
        t = body.blocks[b].get("term")
        if t and t["k"] == "call" and cname(t) in ("is_err", "is_ok") and "Result" in (t.get("callee") or ""):
            nb = t.get("t")
            bs = cfg.bool_switch(body, nb) if nb is not None else None
            if bs:
                if cname(t) == "is_err":
                    return [bs.false_t], [bs.true_t]
                return [bs.true_t], [bs.false_t]
        if t and t["k"] == "call" and not is_noise(t):
            continue
        for n in sc[b]:
            if n not in seen:
                dq.append(n)
    return None


IGNORED_IN_DELEGATES = {"pin", "new", "into", "from", "map_err", "clone", "as_ref", "boxed", "map", "ok", "await"}


def delegation_report(ws, impl, skip=()):
    """For an enum-dispatch impl: per method, the names of the real calls.
    Returns list of (method, fn, ok, detail)."""
    out = []
    for it in impl["items"]:
        if it["kind"] != "Fn" and "Fn" not in it["kind"]:
            continue
        fn = ws.fns.get(it["path"])
        if fn is None or it["name"] in skip:
            continue
        body = cfg.code_body(ws, fn)
        live = cfg.live_blocks(body)
        names = []
        for _i, t in real_calls(body, live):
            n = cname(t)
            if n in IGNORED_IN_DELEGATES:
                continue
            names.append(n)
        # closures nested in the body (map_err etc.) are not followed
        sw = [es for es in cfg.enum_switches(body)
              if es.enum and es.enum == impl.get("self_adt")]
        out.append((it["name"], fn, body, names, sw))
    return out


def calls_named(body, names, live=None):
    live = live if live is not None else cfg.live_blocks(body)
    out = {}
    for i, t in real_calls(body, live):
        n = cname(t)
        if n in names:
            out.setdefault(n, []).append(i)
    return out


def check_sequence(rule, ws, fn, names, label, on_all_ok_paths=True, skip_exit_check=()):
    """Every Ok exit of fn passes through a call of each name, and each name
    dominates the next one (entry-reachability with the earlier calls cut)."""
    body = cfg.code_body(ws, fn)
    live = cfg.live_blocks(body)
    found = calls_named(body, set(names), live)
    oks = [e.block for e in cfg.exits(body) if e.kind in ("ok", "value", "other", "call")]
    errs_only = not oks
    base = "%s|%s" % (fn.root, label)
    missing = [n for n in names if n not in found]
    if missing:
        rule.violation(base + "|missing:" + ",".join(missing), cfg.loc(body),
                       "%s no longer calls %s (expected sequence %s)" % (last_seg(fn.root), missing, " -> ".join(names)), work=len(live))
        return False
    ok = True
    for a, b in zip(names, names[1:]):
        ra = cfg.reach(body, [0], cut_blocks=found[a])
        bad = [x for x in found[b] if x in ra]
        k = "%s|%s-before-%s" % (base, a, b)
        if bad:
            ok = False
            p = cfg.find_path(body, [0], bad, cut_blocks=found[a])
            rule.violation(k, cfg.loc(body, bad[0]), "`%s` can run without `%s` having run first" % (b, a), work=len(live), witness=cfg.path_lines(body, p))
        else:
            rule.ok(k, cfg.loc(body, found[b][0]), "`%s` dominates `%s`" % (a, b), work=len(live))
    if on_all_ok_paths and not errs_only:
        for n in names:
            if n in skip_exit_check:
                continue
            rn = cfg.reach(body, [0], cut_blocks=found[n])
            bad = [o for o in oks if o in rn]
            k = "%s|ok-needs-%s" % (base, n)
            if bad:
                ok = False
                p = cfg.find_path(body, [0], bad, cut_blocks=found[n])
                rule.violation(k, cfg.loc(body, bad[0]), "a successful return is reachable without `%s`" % n, work=len(live), witness=cfg.path_lines(body, p))
            else:
                rule.ok(k, cfg.loc(body, found[n][0]), "every successful return passes `%s`" % n, work=len(live))
    return ok


def fields_touched(ws, fn, adt_name):
    """Field names of `adt_name` read and written anywhere in fn's bodies."""
    reads, writes = set(), set()
    adt = ws.adts.get(adt_name)
    names = set()
    if adt:
        for v in adt["variants"]:
            for f in v["fields"]:
                names.add(f["name"])
    short_name = adt_name.rsplit("::", 1)[-1]
    # the type of the base local must name this ADT (full path, or its last
    # segment as a whole word: `WireSyncCompare` is not `SyncCompare`)
    ty_rx = re.compile(r"(?<![A-Za-z0-9_])(?:%s|%s)(?![A-Za-z0-9_])" % (re.escape(adt_name), re.escape(short_name)))

    def visit(body, place, is_write):
        if place is None or "." not in place:
            return
        l = cfg.place_local(place)
        ty = body.locals[l]
        proj = cfg.place_proj(place)
        # closure captures: 1.fK: then the captured value's own fields
        if not ty_rx.search(ty) and not (l == 1 and body.kind == "Closure"):
            return
        for e in proj:
            if e.startswith("f") and ":" in e:
                n = e.split(":", 1)[1]
                if n in names:
                    (writes if is_write else reads).add(n)
                    return
    for b in fn.bodies:
        for blk in b.blocks:
            if blk.get("cleanup"):
                continue
            for s in blk["s"]:
                if s.get("k") == "dead":
                    continue
                if s.get("d"):
                    visit(b, s["d"], True)
                if s.get("p"):
                    visit(b, s["p"], s.get("k") == "refmut" and False)
                for o in s.get("ops", []):
                    visit(b, cfg.op_place(o), False)
            t = blk.get("term")
            if t and t["k"] in ("call", "tailcall"):
                for o in t["args"]:
                    visit(b, cfg.op_place(o), False)
            if t and t["k"] == "switch":
                visit(b, cfg.op_place(t["d"]), False)
    return reads, writes


def arm_regions(body, es):
    """variant -> set of blocks reachable only from that variant's arm of
    an enum switch (the switch block itself is cut, so loops do not merge arms)."""
    out = {}
    reach = {v: cfg.reach(body, [t], cut_blocks=[es.block]) for v, t in es.targets.items()}
    if es.otherwise_live:
        reach["_"] = cfg.reach(body, [es.otherwise], cut_blocks=[es.block])
    for v in reach:
        others = set()
        for w, rr in reach.items():
            if w != v:
                others |= rr
        out[v] = reach[v] - others
    return out


def arm_calls(body, es):
    """variant -> list of (block, term) real calls in the arm's exclusive region."""
    regs = arm_regions(body, es)
    out = {}
    for v, blocks in regs.items():
        out[v] = [(i, body.blocks[i]["term"]) for i in sorted(blocks)
                  if body.blocks[i].get("term", {}).get("k") == "call"
                  and not is_noise(body.blocks[i]["term"]) and not is_logging(body.blocks[i]["term"])]
    return out


def origin_calls(body, place, _seen=None, depth=0):
    """Real calls whose result a place is (a reference to / moved from /
    awaited from / `?`-unwrapped from): follows use/ref/cast statements and
    desugaring calls only — unlike the value-flow graph it does not mix in the
    other arguments of calls that take the value by &mut."""
    _seen = _seen if _seen is not None else set()
    l = cfg.place_local(place)
    if l in _seen or depth > 40:
        return set()
    _seen.add(l)
    out = set()
    for (bi, st, is_term) in cfg.defs_of(body).get(l, []):
        if is_term:
            if st["k"] != "call":
                continue
            if is_noise(st) or cname(st) in RESULT_ADAPTORS:
                for a in st["args"][:1]:
                    p = cfg.op_place(a)
                    if p is not None:
                        out |= origin_calls(body, p, _seen, depth + 1)
            else:
                out.add(bi)
        else:
            k = st.get("k")
            if k in ("use", "cast"):
                p = cfg.op_place(st["ops"][0])
                if p is not None:
                    out |= origin_calls(body, p, _seen, depth + 1)
            elif k in ("ref", "refmut", "rawptr"):
                out |= origin_calls(body, st["p"], _seen, depth + 1)
    return out


def expr_tree(body, op, defs=None, depth=0):
    """Normalised expression tree of an operand: single-definition locals are
    expanded through copies, casts, arithmetic and calls (callee name + args)."""
    defs = defs if defs is not None else cfg.defs_of(body)
    c = cfg.op_const(op)
    if c is not None:
        return ("const", c.get("i", c.get("b", c.get("s", "?"))))
    p_ = cfg.op_place(op)
    if p_ is None:
        return ("?",)
    l = cfg.place_local(p_)
    proj = ".".join(x for x in cfg.place_proj(p_) if x != "*")
    ds = defs.get(l, [])
    name = body.var_name(l)
    if depth > 10 or len(ds) != 1:
        return ("var", name or "_", proj)
    _bi, st, is_term = ds[0]
    if is_term:
        if st.get("k") == "call":
            return ("call", cname(st)) + tuple(expr_tree(body, a, defs, depth + 1) for a in st.get("args", []))
        return ("var", name or "_", proj)
    k = st.get("k")
    if proj and not (k == "bin" and (st.get("op") or "").endswith("WithOverflow") and proj.startswith("f0")):
        return ("proj", proj, name or "")
    if k == "use":
        return expr_tree(body, st["ops"][0], defs, depth + 1)
    if k == "cast":
        return ("cast", expr_tree(body, st["ops"][0], defs, depth + 1))
    if k in ("ref", "refmut"):
        return expr_tree(body, "c" + st["p"], defs, depth + 1) if name is None else ("var", name, "")
    if k == "bin":
        op_ = (st.get("op") or "").replace("WithOverflow", "")
        a, b = (expr_tree(body, o, defs, depth + 1) for o in st["ops"])
        if op_ in ("Add", "Mul") and repr(b) < repr(a):
            a, b = b, a
        return (op_, a, b)
    return (k or "?",)


def render_expr(e):
    if not isinstance(e, tuple):
        return str(e)
    h = e[0]
    if h == "const":
        return str(e[1])
    if h == "var":
        return (e[1] or "_") + ("." + e[2] if len(e) > 2 and e[2] else "")
    if h == "proj":
        return (e[2] or "_") + "." + e[1]
    if h == "call":
        return "%s(%s)" % (e[1], ", ".join(render_expr(x) for x in e[2:]))
    if h == "cast":
        return "cast(%s)" % render_expr(e[1])
    return "%s(%s)" % (h, ", ".join(render_expr(x) for x in e[1:]))


def dominating_conditions(body, block):
    """Rendered conditions that hold on every path reaching `block`:
    `T:<expr>` when the block is only reachable through the true edge of that
    comparison, `F:<expr>` for the false edge."""
    out = []
    defs = cfg.defs_of(body)
    for j in sorted(cfg.live_blocks(body)):
        bs = cfg.bool_switch(body, j)
        if not bs or bs.defn is None:
            continue
        if bs.def_is_term:
            e = ("call", cname(bs.defn)) + tuple(expr_tree(body, a, defs, 1) for a in bs.defn.get("args", []))
        elif bs.defn.get("k") == "bin":
            e = (bs.defn.get("op"),) + tuple(expr_tree(body, o, defs, 1) for o in bs.defn["ops"])
        else:
            continue
        if block not in cfg.reach(body, [0], cut_edges={(bs.block, bs.true_t)}) and block != bs.block:
            out.append("T:" + render_expr(e))
        elif block not in cfg.reach(body, [0], cut_edges={(bs.block, bs.false_t)}) and block != bs.block:
            out.append("F:" + render_expr(e))
    return out
