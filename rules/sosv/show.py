"""Readable dump of a function's MIR facts: python3 -m sosv.show <facts_dir> <regex>"""
import sys
import gc
from .facts import load_cached


def opstr(o):
    if isinstance(o, str):
        return o
    if "fn" in o:
        return "fn:" + o["fn"]
    if "s" in o:
        return "str:%r" % o["s"]
    if "i" in o:
        return "int:%s" % o["i"]
    if "b" in o:
        return "bool:%s" % o["b"]
    if "const" in o:
        return "const:" + o["const"]
    return "k:" + o.get("ty", "?")


def show_body(b, out=sys.stdout):
    print("== %s [%s] %s:%s  argc=%s" % (b.path, b.kind, b.file, b.line, b.argc), file=out)
    print("   vars:", b.vars, file=out)
    for i, blk in enumerate(b.blocks):
        if blk.get("cleanup"):
            continue
        for s in blk["s"]:
            k = s["k"]
            if k in ("use", "cast", "bin", "un", "repeat"):
                rhs = "%s(%s)" % (k + (":" + s.get("op", "") if "op" in s else ""), ", ".join(opstr(x) for x in s["ops"]))
            elif k in ("ref", "refmut", "rawptr"):
                rhs = "%s %s" % (k, s["p"])
            elif k == "discr":
                rhs = "discr(%s) enum=%s" % (s["p"], s.get("enum"))
            elif k == "agg":
                if s["ak"] == "adt":
                    rhs = "%s::%s{%s}" % (s["adt"], s["variant"], ", ".join("%s=%s" % (f, opstr(x)) for f, x in zip(s["fields"], s["ops"])))
                else:
                    rhs = "%s %s(%s)" % (s["ak"], s.get("def", ""), ", ".join(opstr(x) for x in s["ops"]))
            elif k == "dead":
                rhs = "StorageDead"
            else:
                rhs = str(s)
            print("  bb%d  L%s  _%s = %s" % (i, s.get("l", "?"), s.get("d"), rhs), file=out)
        t = blk.get("term")
        if not t:
            continue
        k = t["k"]
        if k in ("call", "tailcall"):
            print("  bb%d  L%s  _%s = CALL %s [%s] (%s) -> bb%s%s" % (
                i, t["l"], t.get("dest"), t.get("resolved_full") or t.get("callee_full") or t["callee"],
                t.get("dispatch", t.get("rkind", "")),
                ", ".join(opstr(x) for x in t["args"]), t.get("t"),
                "  {macro %s}" % t["macro"] if t.get("macro") else ""), file=out)
        elif k == "switch":
            print("  bb%d  L%s  SWITCH %s %s otherwise bb%s" % (i, t["l"], opstr(t["d"]), t["vals"], t["otherwise"]), file=out)
        elif k == "assert":
            print("  bb%d  L%s  ASSERT %s %s -> bb%s" % (i, t["l"], t["msg"], opstr(t["cond"]), t["t"]), file=out)
        elif k == "false_edge":
            print("  bb%d  L%s  FALSE_EDGE -> bb%s (imag bb%s)" % (i, t["l"], t["t"], t["imag"]), file=out)
        elif k == "yield":
            print("  bb%d  L%s  YIELD -> bb%s" % (i, t["l"], t["t"]), file=out)
        elif k == "drop":
            print("  bb%d  L%s  DROP _%s -> bb%s" % (i, t["l"], t["p"], t["t"]), file=out)
        else:
            print("  bb%d  L%s  %s %s" % (i, t["l"], k.upper(), ("-> bb%s" % t["t"]) if "t" in t else ""), file=out)


def main():
    import re
    gc.disable()
    ws = load_cached(sys.argv[1])
    rx = re.compile(sys.argv[2])
    brief = len(sys.argv) > 3 and sys.argv[3] == "-l"
    for p in sorted(ws.bodies):
        if rx.search(p):
            if brief:
                print(p)
            else:
                show_body(ws.bodies[p])


if __name__ == "__main__":
    main()
