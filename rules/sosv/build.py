"""Build the driver, run it over /repo's current working tree, cache facts.

Facts are keyed by a hash of every file of /repo (outside target/ and .git/)
and of the driver, so running 20 checks on one tree pays for one build, and
any edit to /repo yields a new key (checks always analyse the current tree).
"""
import fcntl
import hashlib
import json
import os
import shutil
import subprocess
import sys
import time

REPO = os.environ.get("SOSV_REPO", "/repo")
VERIF = os.path.dirname(os.path.dirname(os.path.dirname(os.path.abspath(__file__))))
SCRATCH = os.environ.get("SOSV_SCRATCH", "/var/tmp/sosverif")
DRIVER_DIR = os.path.join(VERIF, "driver")
DRIVER_BIN = os.path.join(DRIVER_DIR, "target", "release", "sosfacts")


class BuildError(SystemExit):
    """The tree could not be analysed (it does not compile, or the driver is
    missing): exit status 2 — neither 'held' (0) nor 'violation' (1)."""

    def __init__(self, msg):
        sys.stderr.write("[sosv] ERROR: %s\n" % msg)
        super().__init__(2)


def log(*a):
    print("[sosv]", *a, file=sys.stderr, flush=True)


def _hash_tree(root, skip_dirs):
    h = hashlib.sha256()
    n = 0
    for dp, dns, fns in os.walk(root):
        rel = os.path.relpath(dp, root)
        dns[:] = sorted(d for d in dns if not (
            (rel == "." and d in skip_dirs) or d == ".git" or d == "target"))
        for fn in sorted(fns):
            p = os.path.join(dp, fn)
            if os.path.islink(p) or not os.path.isfile(p):
                continue
            h.update(os.path.relpath(p, root).encode())
            h.update(b"\0")
            with open(p, "rb") as fh:
                h.update(hashlib.sha256(fh.read()).digest())
            n += 1
    return h.hexdigest(), n


def tree_hash():
    th, n = _hash_tree(REPO, {"target", ".git"})
    dh, _ = _hash_tree(os.path.join(DRIVER_DIR, "src"), set())
    h = hashlib.sha256((th + dh).encode()).hexdigest()[:20]
    return h, n


def sysroot():
    return subprocess.check_output(
        ["rustc", "+nightly", "--print", "sysroot"], text=True).strip()


def env_offline():
    e = dict(os.environ)
    e["CARGO_NET_OFFLINE"] = "true"
    e.pop("RUSTC_WRAPPER", None)
    return e


def ensure_driver():
    src_m = 0
    for dp, _d, fns in os.walk(os.path.join(DRIVER_DIR, "src")):
        for fn in fns:
            src_m = max(src_m, os.path.getmtime(os.path.join(dp, fn)))
    if os.path.exists(DRIVER_BIN) and os.path.getmtime(DRIVER_BIN) >= src_m:
        return
    log("building driver")
    r = subprocess.run(["cargo", "+nightly", "build", "--release", "--offline"],
                       cwd=DRIVER_DIR, env=env_offline(),
                       stdout=subprocess.PIPE, stderr=subprocess.STDOUT, text=True)
    if r.returncode != 0:
        sys.stderr.write(r.stdout)
        raise BuildError("driver build failed")


def member_packages():
    r = subprocess.run(["cargo", "+nightly", "metadata", "--offline", "--no-deps",
                        "--format-version", "1"], cwd=REPO, env=env_offline(),
                       stdout=subprocess.PIPE, stderr=subprocess.PIPE, text=True)
    if r.returncode != 0:
        sys.stderr.write(r.stderr)
        raise BuildError("cargo metadata failed")
    md = json.loads(r.stdout)
    return sorted(p["name"] for p in md["packages"])


def _clear_member_fingerprints(target, members):
    fp = os.path.join(target, "debug", ".fingerprint")
    if not os.path.isdir(fp):
        return
    names = set(members)
    for d in os.listdir(fp):
        base = d.rsplit("-", 1)[0]
        if base in names:
            shutil.rmtree(os.path.join(fp, d), ignore_errors=True)


def _prune(facts_root, keep):
    try:
        ds = [os.path.join(facts_root, d) for d in os.listdir(facts_root)]
    except FileNotFoundError:
        return
    ds = [d for d in ds if os.path.isdir(d)]
    ds.sort(key=lambda d: os.path.getmtime(d), reverse=True)
    for d in ds[keep:]:
        shutil.rmtree(d, ignore_errors=True)


# configuration name -> extra cargo arguments
CONFIGS = {
    "workspace": ["--workspace"],
    # thorough tier: feature configurations the workspace unification hides
    "server-all": ["-p", "sos-server", "--all-features"],
    "server-min": ["-p", "sos-server", "--no-default-features"],
    "net-min": ["-p", "sos-net", "--no-default-features"],
    "protocol-min": ["-p", "sos-protocol", "--no-default-features"],
}


def ensure_facts(config="workspace", extra_args=None):
    """Return (facts_dir, info). Runs the driver if no facts exist for the
    current tree hash."""
    os.makedirs(SCRATCH, exist_ok=True)
    t0 = time.time()
    h, nfiles = tree_hash()
    facts_root = os.path.join(SCRATCH, "facts")
    fdir = os.path.join(facts_root, h, config)
    marker = os.path.join(fdir, ".complete")
    info = {"tree_hash": h, "repo_files_hashed": nfiles, "config": config}
    if os.path.exists(marker):
        info["cached"] = True
        info.update(json.load(open(marker)))
        try:
            os.utime(os.path.dirname(fdir), None)   # keep recently used trees out of the pruning
        except OSError:
            pass
        return fdir, info
    lock = open(os.path.join(SCRATCH, "lock"), "w")
    fcntl.flock(lock, fcntl.LOCK_EX)
    try:
        if os.path.exists(marker):
            info["cached"] = True
            info.update(json.load(open(marker)))
            return fdir, info
        ensure_driver()
        if os.path.isdir(fdir):
            shutil.rmtree(fdir)
        os.makedirs(fdir)
        target = os.path.join(SCRATCH, "target-" + config)
        members = member_packages()
        _clear_member_fingerprints(target, members)
        env = env_offline()
        env["LD_LIBRARY_PATH"] = os.path.join(sysroot(), "lib") + ":" + env.get("LD_LIBRARY_PATH", "")
        env["RUSTFLAGS"] = "-Zmir-opt-level=0 -Awarnings"
        env["RUSTC_WORKSPACE_WRAPPER"] = DRIVER_BIN
        env["SOSFACTS_OUT"] = fdir
        env["CARGO_TARGET_DIR"] = target
        args = ["cargo", "+nightly", "check", "--offline", "--locked"]
        args += extra_args if extra_args is not None else CONFIGS[config]
        log("analysing /repo (%s): %s" % (config, " ".join(args)))
        r = subprocess.run(args, cwd=REPO, env=env, stdout=subprocess.PIPE,
                           stderr=subprocess.STDOUT, text=True)
        if r.returncode != 0:
            sys.stderr.write(r.stdout[-6000:])
            shutil.rmtree(fdir, ignore_errors=True)
            raise BuildError("cargo check of /repo failed (config %s): the tree does not compile" % config)
        nfacts = len([f for f in os.listdir(fdir) if f.endswith(".jsonl")])
        if nfacts == 0:
            raise BuildError("driver produced no fact files")
        meta = {"fact_files": nfacts, "build_s": round(time.time() - t0, 1),
                "members": len(members)}
        with open(marker, "w") as fh:
            json.dump(meta, fh)
        info.update(meta)
        info["cached"] = False
        _prune(facts_root, 12)
        return fdir, info
    finally:
        fcntl.flock(lock, fcntl.LOCK_UN)
        lock.close()
