"""Load the JSON-lines facts written by the sosfacts driver into a Workspace."""
import json
import os
import pickle
import re
from collections import defaultdict


class Body:
    __slots__ = ("path", "root", "crate", "kind", "file", "line", "lo", "hi",
                 "meta", "locals", "vars", "blocks", "argc", "parent")

    def __init__(self, o, crate):
        self.path = o["path"]
        self.root = o["root"]
        self.crate = crate
        self.kind = o["kind"]
        self.file = o["file"]
        self.line = o["line"]
        self.lo = o.get("lo", o["line"])
        self.hi = o.get("hi", o["line"])
        self.locals = o["locals"]
        self.vars = o["vars"]
        self.blocks = o["blocks"]
        self.argc = o["argc"]
        self.parent = o.get("parent")
        self.meta = {k: v for k, v in o.items()
                     if k not in ("blocks", "locals", "vars")}

    def calls(self):
        """Yield (block index, terminator dict) for every call terminator."""
        for i, b in enumerate(self.blocks):
            t = b.get("term")
            if t and t["k"] in ("call", "tailcall"):
                yield i, t

    def var_name(self, local):
        return self.vars.get(str(local))

    def __repr__(self):
        return "<Body %s>" % self.path


class Fn:
    """A logical function: a root item plus every nested closure/async body."""
    __slots__ = ("root", "bodies", "crate")

    def __init__(self, root):
        self.root = root
        self.bodies = []
        self.crate = None

    @property
    def main(self):
        for b in self.bodies:
            if b.path == self.root:
                return b
        return self.bodies[0]

    @property
    def meta(self):
        return self.main.meta

    @property
    def file(self):
        return self.main.file

    @property
    def line(self):
        return self.main.line

    def calls(self):
        for b in self.bodies:
            for i, t in b.calls():
                yield b, i, t

    def __repr__(self):
        return "<Fn %s>" % self.root


class Workspace:
    def __init__(self):
        self.crates = {}        # name -> crate record
        self.bodies = {}        # path -> Body
        self.fns = {}           # root path -> Fn
        self.adts = {}          # path -> adt record
        self.impls = []         # impl records
        self.traits = {}        # path -> trait record
        self.consts = {}        # path -> const record
        self.stats = {}

    # ---------------------------------------------------------------- load
    @staticmethod
    def load(facts_dir, include_bins=True):
        ws = Workspace()
        files = sorted(f for f in os.listdir(facts_dir) if f.endswith(".jsonl"))
        for f in files:
            m = re.match(r"(.+)-([a-z_]+)-([0-9a-f]+)\.jsonl$", f)
            if not m:
                continue
            name, ctype = m.group(1), m.group(2)
            cname = name if ctype != "executable" else name + "__bin"
            if ctype == "executable" and not include_bins:
                continue
            ws._load_file(os.path.join(facts_dir, f), cname)
        for b in ws.bodies.values():
            fn = ws.fns.get(b.root)
            if fn is None:
                fn = ws.fns[b.root] = Fn(b.root)
                fn.crate = b.crate
            fn.bodies.append(b)
        ws.stats = {
            "crates": len(ws.crates),
            "bodies": len(ws.bodies),
            "functions": len(ws.fns),
            "adts": len(ws.adts),
            "impls": len(ws.impls),
            "blocks": sum(len(b.blocks) for b in ws.bodies.values()),
            "calls": sum(1 for b in ws.bodies.values() for _ in b.calls()),
        }
        return ws

    def _load_file(self, path, cname):
        prefix = cname + "::"
        with open(path, "r", encoding="utf-8") as fh:
            for line in fh:
                if "crate::" in line:
                    line = re.sub(r"(?<![A-Za-z0-9_])crate::", prefix, line)
                o = json.loads(line)
                t = o["t"]
                if t == "body":
                    b = Body(o, cname)
                    self.bodies[b.path] = b
                elif t == "adt":
                    o["crate"] = cname
                    self.adts[o["path"]] = o
                elif t == "impl":
                    o["crate"] = cname
                    self.impls.append(o)
                elif t == "trait":
                    o["crate"] = cname
                    self.traits[o["path"]] = o
                elif t == "const":
                    self.consts[o["path"]] = o
                elif t == "crate":
                    o["file"] = os.path.basename(path)
                    self.crates[cname] = o

    # ------------------------------------------------------------- queries
    def fn(self, root):
        return self.fns.get(root)

    def find_fns(self, pattern, crate=None):
        """Functions whose root path matches the regex (search)."""
        rx = re.compile(pattern)
        out = []
        for r, f in self.fns.items():
            if crate and f.crate != crate:
                continue
            if rx.search(r):
                out.append(f)
        out.sort(key=lambda f: f.root)
        return out

    def impls_of(self, trait_path):
        return [i for i in self.impls if i.get("trait") == trait_path]

    def impl_methods(self, trait_path, method):
        """Fns implementing `method` of trait `trait_path` (workspace impls)."""
        out = []
        for i in self.impls_of(trait_path):
            for it in i["items"]:
                if it["name"] == method and it["path"] in self.fns:
                    out.append(self.fns[it["path"]])
        return out


def load_cached(facts_dir):
    pk = os.path.join(facts_dir, "workspace.pkl")
    if os.path.exists(pk):
        try:
            with open(pk, "rb") as fh:
                return pickle.load(fh)
        except Exception:
            pass
    ws = Workspace.load(facts_dir)
    # never cache a directory whose analysis is still being written (the build
    # drops a `.complete` marker at the end): an ad-hoc reader must not poison
    # the cache the checks will use for this tree
    if not os.path.exists(os.path.join(facts_dir, ".complete")):
        return ws
    tmp = pk + ".tmp%d" % os.getpid()
    with open(tmp, "wb") as fh:
        pickle.dump(ws, fh, protocol=pickle.HIGHEST_PROTOCOL)
    os.replace(tmp, pk)
    return ws
