"""C11 — The server acts only for requests signed by a trusted device."""
import re
from .. import cfg, idioms
from ..flow import FlowGraph
from ..idioms import cname

ROUTER = "sos_server::server::Server::router"
AUTH = re.compile(r"sos_server::handlers::authenticate_endpoint$")
ROUTING = re.compile(r"axum::routing::method_routing::(MethodRouter::<.*>::|MethodRouter::)?(get|post|put|patch|delete|head|options|any|on)\b")

# Routes that are public by design, each with its reason.
PUBLIC = {
    "sos_server::handlers::home": "redirect to the API index; touches no account data",
    "sos_server::handlers::api": "static name/version JSON",
    "sos_server::server::apidocs": "static API documentation page",
    "sos_server::server::openapi": "static OpenAPI document",
    "sos_server::handlers::connections": "exposes a connection count only",
    "sos_server::handlers::relay::upgrade": "pairing relay is untrusted by design (payloads are noise-encrypted end to end)",
}

# Calls that may run before the authentication gate: request parsing only.
PRE_AUTH = {"parse_account_id", "to_bytes", "path", "to_string", "as_bytes", "clone", "authenticate_endpoint",
            "into_response", "map_err", "as_str", "as_ref", "into", "from", "len", "is_empty", "to_owned",
            "as_slice", "deref"}
TRACING_MACROS = {"debug", "trace", "info", "warn", "error", "event", "span", "enabled", "callsite", "valueset",
                  "debug_span", "trace_span", "info_span", "level_enabled", "fieldset", "format_args", "format"}

# Handlers whose request body is not materialised before authentication.
STREAMING = {
    "sos_server::handlers::files::receive_file": "upload body is streamed; it is bound to the signed path by the SHA-256 name check (C17-R2)",
}


def route_table(ws, fn):
    """Handlers registered in Server::router: list of (handler path, block)."""
    out = []
    for b in fn.bodies:
        for i, t in b.calls():
            name = t.get("callee") or ""
            if not re.search(r"axum::routing::method_routing::", name):
                continue
            m = cname(t)
            if m not in ("get", "post", "put", "patch", "delete", "head", "options", "any"):
                continue
            h = None
            for a in t["args"]:
                c = cfg.op_const(a)
                if c is not None and "fn" in c:
                    h = c["fn"]
            if h is None:
                # closure handler
                for a in t["args"]:
                    l = cfg.op_local(a)
                    if l is not None and "closure" in b.locals[l]:
                        h = "<closure in router>"
            out.append((h or "<unknown handler>", m, b, i))
    return out


def r1_routes(ctx):
    ws = ctx.ws
    r = ctx.rule("C11-R1", "every route is either in the public table or an authenticated handler",
                 floor=20, kind="K6 handler table")
    fn = ws.fn(ROUTER)
    if not fn:
        r.anchor_missing("Server::router")
        return []
    table = route_table(ws, fn)
    authed = []
    for (h, method, b, i) in table:
        key = "%s|%s" % (h, method)
        if h in PUBLIC:
            r.ok(key, cfg.loc(b, i), "public route: " + PUBLIC[h], work=1)
            continue
        if h == "<closure in router>":
            # the only closure route is the prometheus exporter: it may call
            # nothing but the metrics handle's render()
            cl = [bd for bd in fn.bodies if bd.kind == "Closure"]
            names = sorted({cname(t) for bd in cl for _j, t in bd.calls() if not idioms.is_noise(t)})
            if names and set(names) <= {"render", "clone", "pin", "new"}:
                r.ok(key, cfg.loc(b, i), "public route: prometheus metrics exporter (closure calls only %s)" % names, work=len(cl))
            else:
                r.violation(key, cfg.loc(b, i), "a closure is registered as a route handler and does more than render metrics (calls %s)" % names, work=len(cl))
            continue
        hf = ws.fns.get(h)
        if hf is None:
            r.violation(key, cfg.loc(b, i), "route handler %s cannot be resolved to a workspace function and is not in the public table" % h, work=1)
            continue
        calls_auth = any(cfg.call_matches(t, AUTH) for _b, _i, t in hf.calls())
        if calls_auth:
            r.ok(key, cfg.loc(b, i), "authenticated handler", work=1)
            authed.append((hf, method))
        else:
            r.violation(key, cfg.loc(b, i),
                        "route %s %s is neither in the public table nor calls authenticate_endpoint: it is reachable without a device signature" % (method.upper(), h),
                        work=1)
    n_auth = len(authed)
    if n_auth < 16 and ctx.config == "workspace":
        r.violation("authenticated-count", cfg.loc(fn.main), "only %d authenticated method-routes found (16 on the pinned tree)" % n_auth, work=1)
    return authed


def _auth_call(body):
    for i, t in idioms.real_calls(body, cfg.live_blocks(body)):
        if cfg.call_matches(t, AUTH):
            return i, t
    return None, None


def r2_auth_dominates(ctx, authed):
    ws = ctx.ws
    r = ctx.rule("C11-R2", "in every authenticated handler nothing but request parsing runs before a successful authenticate_endpoint",
                 floor=16, kind="K2 edge dominance")
    done = set()
    for (hf, _m) in authed:
        if hf.root in done:
            continue
        done.add(hf.root)
        body = cfg.code_body(ws, hf)
        ai, at = _auth_call(body)
        if ai is None:
            r.violation(hf.root + "|auth-call", cfg.loc(body), "authenticate_endpoint is not called in the handler's own body", work=1)
            continue
        rb = idioms.result_branches(body, ai)
        if rb is None:
            r.violation(hf.root + "|auth-result", cfg.loc(body, ai), "the result of authenticate_endpoint is neither matched nor propagated with `?`", work=1)
            continue
        ok_start, _err = rb
        pre = cfg.reach(body, [0], cut_blocks=ok_start)
        bad = []
        for i, t in idioms.real_calls(body, pre):
            n = cname(t)
            if n in PRE_AUTH:
                continue
            bad.append((i, t, n))
        if bad:
            for (i, t, n) in bad:
                r.violation("%s|pre-auth:%s" % (hf.root, n), cfg.loc(body, i),
                            "`%s` can run before (or without) a successful authenticate_endpoint in %s" % (n, idioms.last_seg(hf.root)),
                            work=len(pre), witness=cfg.path_lines(body, cfg.find_path(body, [0], [i], cut_blocks=ok_start)))
        else:
            r.ok(hf.root + "|gate", cfg.loc(body, ai), "only request parsing is reachable without passing the Ok edge of authenticate_endpoint", work=len(pre))
        # every Ok-side effect exists (the handler does something after auth)
        post = cfg.reach(body, ok_start)
        eff = [cname(t) for i, t in idioms.real_calls(body, post) if cname(t) not in PRE_AUTH]
        if not eff:
            r.note("%s: no effect call after the gate" % hf.root)


def r3_signature_covers_acted_bytes(ctx, authed):
    ws = ctx.ws
    r = ctx.rule("C11-R3", "the signature is checked over the body that is acted on (or the path for body-less routes); the account comes from the request header",
                 floor=16, kind="K4 value flow")
    done = set()
    for (hf, _m) in authed:
        if hf.root in done:
            continue
        done.add(hf.root)
        body = cfg.code_body(ws, hf)
        ai, at = _auth_call(body)
        if ai is None:
            continue
        fg = FlowGraph(ws, hf)
        sl_signed = fg.back_from_operand(body, at["args"][2])
        from_body = any(cname(t) == "to_bytes" for _b, _i, t in sl_signed.calls)
        from_path = any(cname(t) == "path" for _b, _i, t in sl_signed.calls)
        has_body = any("body::Body" in x for x in (hf.meta.get("inputs") or []))
        materialises = any(cname(t) == "to_bytes" for _b, _i, t in hf.calls())
        key = hf.root + "|signed-data"
        if hf.root in STREAMING:
            if from_path:
                r.ok(key, cfg.loc(body, ai), "streaming route signs the path: " + STREAMING[hf.root], work=len(sl_signed.nodes))
            else:
                r.violation(key, cfg.loc(body, ai), "streaming upload route does not sign its path", work=len(sl_signed.nodes))
        elif has_body and materialises:
            if from_body:
                r.ok(key, cfg.loc(body, ai), "signature covers the request body bytes", work=len(sl_signed.nodes))
            else:
                r.violation(key, cfg.loc(body, ai),
                            "the request has a body that is read and acted on, but the signature is verified over %s: the body is not covered by the device signature" % (
                                "the URI path" if from_path else "other data"),
                            work=len(sl_signed.nodes))
        else:
            if from_path:
                r.ok(key, cfg.loc(body, ai), "body-less route signs the URI path", work=len(sl_signed.nodes))
            else:
                r.violation(key, cfg.loc(body, ai), "body-less route does not verify the signature over the URI path", work=len(sl_signed.nodes))
        # the bytes given to the inner handler are the signed bytes
        if has_body and materialises and from_body:
            inner = [(i, t) for i, t in idioms.real_calls(body) if re.search(r"::handlers::\w+::handlers::\w+$", t.get("callee") or "")]
            for (i, t) in inner:
                ok = False
                for a in t["args"]:
                    sl = fg.back_from_operand(body, a)
                    if any(cname(ct) == "to_bytes" for _b, _i, ct in sl.calls):
                        ok = True
                k2 = hf.root + "|acted-bytes"
                if ok:
                    r.ok(k2, cfg.loc(body, i), "inner handler receives the signed bytes", work=1)
                else:
                    r.violation(k2, cfg.loc(body, i), "inner handler does not receive the bytes the signature was verified over", work=1)
        # account id
        sl_acc = fg.back_from_operand(body, at["args"][0])
        k3 = hf.root + "|account-id"
        if any(cname(t) == "parse_account_id" for _b, _i, t in sl_acc.calls):
            r.ok(k3, cfg.loc(body, ai), "account id parsed from the request header", work=len(sl_acc.nodes))
        else:
            r.violation(k3, cfg.loc(body, ai), "account id given to authenticate_endpoint does not come from parse_account_id(headers)", work=len(sl_acc.nodes))


def r4_authenticate_endpoint(ctx):
    ws = ctx.ws
    r = ctx.rule("C11-R4", "authenticate_endpoint: bearer parse, access-list check and verify_device precede every Ok",
                 floor=4, kind="K2 must-pass-through + K4")
    fns = ws.find_fns(r"^sos_server::handlers::authenticate_endpoint$")
    if not fns:
        r.anchor_missing("authenticate_endpoint")
        return
    f = fns[0]
    body = cfg.code_body(ws, f)
    oks = [e.block for e in cfg.exits(body) if e.kind == "ok"]
    if not oks:
        r.anchor_missing("Ok exit of authenticate_endpoint")
        return
    live = cfg.live_blocks(body)
    for name in ("bearer", "verify_device"):
        cs = [i for i, t in idioms.real_calls(body, live) if cname(t) == name]
        k = "%s|ok-needs:%s" % (f.root, name)
        if not cs:
            r.violation(k, cfg.loc(body), "authenticate_endpoint no longer calls %s" % name, work=1)
            continue
        # success continuation only
        cut = []
        for c in cs:
            rb = idioms.result_branches(body, c)
            if rb:
                cut.extend(rb[0])
            else:
                cut.append(c)
        if any(o in cfg.reach(body, [0], cut_blocks=cut) for o in oks):
            p = cfg.find_path(body, [0], oks, cut_blocks=cut)
            r.violation(k, cfg.loc(body, cs[0]), "Ok is reachable without a successful %s" % name, work=len(body.blocks), witness=cfg.path_lines(body, p))
        else:
            r.ok(k, cfg.loc(body, cs[0]), "every Ok exit passes the success edge of %s" % name, work=len(body.blocks))
    # access list: one outcome of is_allowed_access must not reach Ok
    acc = [i for i, t in idioms.real_calls(body, live) if cname(t) == "is_allowed_access"]
    k = f.root + "|access-list"
    if not acc:
        r.violation(k, cfg.loc(body), "the allow/deny list is no longer consulted", work=1)
    else:
        fg = FlowGraph(ws, f)
        blocked = False
        for i in live:
            bs = cfg.bool_switch(body, i)
            if not bs:
                continue
            sl = fg.back([(body.path, bs.local)])
            if any(cname(t) == "is_allowed_access" for _b, _i, t in sl.calls):
                for tgt in (bs.true_t, bs.false_t):
                    if not any(o in cfg.reach(body, [tgt]) for o in oks):
                        blocked = True
        if blocked:
            r.ok(k, cfg.loc(body, acc[0]), "one outcome of is_allowed_access cannot reach Ok", work=len(body.blocks))
        else:
            r.violation(k, cfg.loc(body, acc[0]), "both outcomes of is_allowed_access reach Ok: denied accounts are served", work=len(body.blocks))
    # verify_device arguments
    fg = FlowGraph(ws, f)
    for i, t in idioms.real_calls(body, live):
        if cname(t) != "verify_device":
            continue
        a = t["args"]
        sl_msg = fg.back_from_operand(body, a[-1])
        k = f.root + "|verify-over-signed-data"
        if sl_msg.has_var(body, "signed_data"):
            r.ok(k, cfg.loc(body, i), "verify_device checks the signature over the signed_data parameter", work=len(sl_msg.nodes))
        else:
            r.violation(k, cfg.loc(body, i), "verify_device is not given the signed_data parameter", work=len(sl_msg.nodes))
        sl_sig = fg.back_from_operand(body, a[-2])
        k = f.root + "|verify-token-signature"
        if any(p for (_b, p) in sl_sig.reads if "device_signature" in cfg.place_fields(p)) or a[-2] and "device_signature" in str(a[-2]):
            r.ok(k, cfg.loc(body, i), "signature comes from the bearer token", work=len(sl_sig.nodes))
        else:
            r.violation(k, cfg.loc(body, i), "the signature verified is not the bearer token's device_signature", work=len(sl_sig.nodes))
    # BearerToken::new: Ok only after decoding a signature
    bt = ws.find_fns(r"^sos_server::authenticate::BearerToken::new$")
    if bt:
        b2 = cfg.code_body(ws, bt[0])
        oks2 = [e.block for e in cfg.exits(b2) if e.kind == "ok"]
        dec = [i for i, t in idioms.real_calls(b2) if cname(t) in ("decode", "into_vec")]
        k = bt[0].root + "|ok-needs-signature-decode"
        if dec and not any(o in cfg.reach(b2, [0], cut_blocks=dec) for o in oks2):
            r.ok(k, cfg.loc(b2), "a token is produced only from a decoded signature with a header account id", work=len(b2.blocks))
        else:
            r.violation(k, cfg.loc(b2), "BearerToken::new can succeed without decoding a device signature (legacy/unsigned form accepted)", work=len(b2.blocks))
    else:
        r.anchor_missing("BearerToken::new")


def _root_field(body, place, names, defs=None, depth=0):
    """Name of the struct field (one of `names`) a place ultimately refers to,
    following refs, copies, receiver-returning calls and tuple packing."""
    defs = defs if defs is not None else cfg.defs_of(body)
    for f in cfg.place_fields(place):
        if f in names:
            return f
    if depth > 12:
        return None
    l = cfg.place_local(place)
    proj = cfg.place_proj(place)
    for (_bi, st, is_term) in defs.get(l, []):
        if is_term:
            if st["k"] == "call" and st["args"]:
                p_ = cfg.op_place(st["args"][0])
                if p_:
                    x = _root_field(body, p_, names, defs, depth + 1)
                    if x:
                        return x
            continue
        k = st.get("k")
        if k in ("ref", "refmut"):
            x = _root_field(body, st["p"], names, defs, depth + 1)
            if x:
                return x
        elif k in ("use", "cast"):
            p_ = cfg.op_place(st["ops"][0])
            if p_:
                x = _root_field(body, p_, names, defs, depth + 1)
                if x:
                    return x
        elif k == "agg" and st.get("ak") == "tuple" and proj:
            m = re.match(r"f(\d+):", proj[0])
            if m and int(m.group(1)) < len(st["ops"]):
                p_ = cfg.op_place(st["ops"][int(m.group(1))])
                if p_:
                    x = _root_field(body, p_, names, defs, depth + 1)
                    if x:
                        return x
    return None


def r7_access_lists(ctx):
    """Semantics of the allow/deny decision itself. Every acyclic path of
    AccessControlConfig::is_allowed_access is walked with a small abstract
    state (per list: None/Some/unexamined and hit/miss/untested; booleans
    that hold `is_some`, membership results or constants), infeasible branches
    are pruned, and each path that may answer `true` must have established
    allow ∈ {None, hit} and deny ∈ {None, miss}."""
    ws = ctx.ws
    r = ctx.rule("C11-R7", "is_allowed_access answers true only for an account that is on a configured allow list and was tested against a configured deny list",
                 floor=2, kind="K2 path-sensitive abstract interpretation (finite domain, all acyclic paths)")
    f = ws.fn("sos_server::config::AccessControlConfig::is_allowed_access")
    if not f:
        r.anchor_missing("AccessControlConfig::is_allowed_access")
        return
    body = f.main
    names = ("allow", "deny")
    defs = cfg.defs_of(body)
    sc = cfg.succs(body)

    def neg(a):
        return a[1] if a and a[0] == "not" else ("not", a)

    def absop(o, bools):
        c = cfg.op_const(o)
        if c is not None and isinstance(c.get("b"), bool):
            return ("const", c["b"])
        p_ = cfg.op_place(o)
        if p_ is not None and "." not in p_:
            return bools.get(cfg.place_local(p_))
        return None

    def refine(a, v, st):
        """Apply `a == v` to the state; False when infeasible."""
        if a is None:
            return True
        if a[0] == "const":
            return a[1] == v
        if a[0] == "not":
            return refine(a[1], not v, st)
        if a[0] == "is_some":
            want = "some" if v else "none"
            if st["lst"][a[1]] not in ("?", want):
                return False
            st["lst"][a[1]] = want
            return True
        if a[0] == "member":
            st["tst"][a[1]] = "hit" if v else "miss"
            return True
        return True
    results = {}     # return-def block -> list of (kind or None, lists-some)
    counter = [0]

    def walk(bi, st, seen):
        counter[0] += 1
        if counter[0] > 20000 or bi in seen:
            raise OverflowError()
        seen = seen | {bi}
        blk = body.blocks[bi]
        st = {"lst": dict(st["lst"]), "tst": dict(st["tst"]), "bools": dict(st["bools"]), "ret": st["ret"]}
        for s_ in blk["s"]:
            d = s_.get("d")
            if d is None or "." in d or s_["k"] == "dead":
                continue
            l = cfg.place_local(d)
            a = None
            if s_["k"] == "use":
                a = absop(s_["ops"][0], st["bools"])
            elif s_["k"] == "un" and s_.get("op") == "Not":
                x = absop(s_["ops"][0], st["bools"])
                a = neg(x) if x else None
            st["bools"][l] = a
            if l == 0:
                st["ret"] = (bi, a)
        t = blk.get("term") or {}
        k = t.get("k")
        if k == "return":
            d_, a = st["ret"] if st["ret"] else (bi, None)
            lst, tst = dict(st["lst"]), dict(st["tst"])
            kind = None
            if a and a[0] == "const" and a[1] is False:
                return
            if a and a[0] == "member":
                if a[1] == "deny":
                    kind = "on-deny-list"
                tst[a[1]] = "hit"
            elif a and a[0] == "not" and a[1] and a[1][0] == "member":
                tst[a[1][1]] = "miss"
            if kind is None:
                if not (lst["allow"] == "none" or tst["allow"] == "hit"):
                    kind = "absent-from-allow" if lst["allow"] == "some" else "allow-not-consulted"
                elif tst["deny"] == "hit":
                    kind = "on-deny-list"
                elif not (lst["deny"] == "none" or tst["deny"] == "miss"):
                    kind = "deny-not-consulted"
            results.setdefault(d_, []).append((kind, "+".join(n for n in names if lst[n] == "some") or "no-lists"))
            return
        if k == "call":
            a = None
            nm = cname(t)
            p_ = cfg.op_place(t["args"][0]) if t.get("args") else None
            n = _root_field(body, p_, names, defs) if p_ else None
            if n and nm in ("is_some", "is_none") and "option::Option" in (t.get("callee") or ""):
                a = ("is_some", n) if nm == "is_some" else ("not", ("is_some", n))
            elif n and nm in ("any", "contains"):
                a = ("member", n)
            dl = t.get("dest")
            if dl and "." not in dl:
                st["bools"][cfg.place_local(dl)] = a
                if cfg.place_local(dl) == 0:
                    st["ret"] = (bi, a)
            if t.get("t") is not None:
                walk(t["t"], st, seen)
            return
        if k == "switch":
            bs = cfg.bool_switch(body, bi)
            es = cfg.enum_switch(body, bi)
            if es and es.enum == "core::option::Option":
                n = _root_field(body, es.place, names, defs)
                listed = dict(es.targets)
                for v, tgt in listed.items():
                    st2 = {"lst": dict(st["lst"]), "tst": st["tst"], "bools": st["bools"], "ret": st["ret"]}
                    if n:
                        want = "some" if v == "Some" else "none"
                        if st2["lst"][n] not in ("?", want):
                            continue
                        st2["lst"][n] = want
                    walk(tgt, st2, seen)
                if es.otherwise_live and len(listed) < 2:
                    other = "none" if "Some" in listed else "some"
                    st2 = {"lst": dict(st["lst"]), "tst": st["tst"], "bools": st["bools"], "ret": st["ret"]}
                    if n:
                        if st2["lst"][n] in ("?", other):
                            st2["lst"][n] = other
                            walk(es.otherwise, st2, seen)
                    else:
                        walk(es.otherwise, st2, seen)
                return
            if bs:
                a = st["bools"].get(bs.local)
                for v, tgt in ((True, bs.true_t), (False, bs.false_t)):
                    st2 = {"lst": dict(st["lst"]), "tst": dict(st["tst"]), "bools": st["bools"], "ret": st["ret"]}
                    if refine(a, v, st2):
                        walk(tgt, st2, seen)
                return
        for nx in sc[bi]:
            walk(nx, st, seen)
    try:
        walk(0, {"lst": {n: "?" for n in names}, "tst": {n: "no" for n in names}, "bools": {}, "ret": None}, frozenset())
    except (OverflowError, RecursionError):
        r.anchor_missing("is_allowed_access is no longer a small loop-free function (path enumeration gave up)")
        return
    MSG = {
        "absent-from-allow": "with an allow list configured, `true` is returned on a path that never found the account on it: accounts absent from the allow list are served",
        "allow-not-consulted": "`true` is returned on a path that never looked at the allow list",
        "on-deny-list": "`true` is returned after the account was found on the deny list",
        "deny-not-consulted": "`true` is returned on a path that never tested the account against a configured deny list: an account that is on both lists is served although denied entries take precedence",
    }
    nret = 0
    seen_keys = {}
    for d_ in sorted(results):
        outs = results[d_]
        bad = sorted({(kind, lists) for kind, lists in outs if kind})
        lists = sorted({l_ for _k, l_ in outs})
        nret += 1
        if bad:
            for kind, l_ in bad:
                k = "%s|true@%s|%s" % (f.root, l_, kind)
                seen_keys[k] = seen_keys.get(k, 0) + 1
                if seen_keys[k] > 1:
                    k += "#%d" % seen_keys[k]
                r.violation(k, cfg.loc(body, d_), MSG[kind], work=counter[0])
        else:
            k = "%s|true@%s" % (f.root, ",".join(lists))
            seen_keys[k] = seen_keys.get(k, 0) + 1
            if seen_keys[k] > 1:
                k += "#%d" % seen_keys[k]
            r.ok(k, cfg.loc(body, d_), "%d feasible path(s) end here with a possibly-true answer; each has allow ∈ {None, found} and deny ∈ {None, tested and not found}" % len(outs), work=counter[0])
    if nret == 0:
        r.anchor_missing("possibly-true answers of is_allowed_access")
    r.note("%d path steps walked" % counter[0])


def r8_hash_eq_agree(ctx):
    """The trusted-device set is an IndexSet keyed by the device's public key:
    `Hash` is hand-written over `public_key` only, so `PartialEq` must compare
    the same fields, otherwise a device trusted twice becomes two entries and a
    revoke removes only one of them. Checked for every type with a hand-written Hash."""
    ws = ctx.ws
    r = ctx.rule("C11-R8", "a hand-written Hash and the type's PartialEq look at the same fields (set/map keys behave as keys)",
                 floor=2, kind="K5 sibling agreement (field sets)")
    n = 0
    for imp in ws.impls:
        if imp.get("trait") != "core::hash::Hash" or imp.get("crate") in idioms.TEST_CRATES or not imp.get("self_adt"):
            continue
        adt = imp["self_adt"]
        hf = [ws.fns.get(it["path"]) for it in imp["items"]]
        hf = [f for f in hf if f is not None and not f.meta.get("exp")]
        if not hf:
            continue   # derived Hash: all fields, agrees with any derived Eq; a manual Eq with derived Hash is clippy's lint
        hr = set()
        for f in hf:
            hr |= idioms.fields_touched(ws, f, adt)[0]
        er, eloc, found = set(), None, False
        for e in ws.impls:
            if e.get("trait") == "core::cmp::PartialEq" and e.get("self_adt") == adt:
                for it in e["items"]:
                    f2 = ws.fns.get(it["path"])
                    if f2 is not None:
                        found = True
                        er |= idioms.fields_touched(ws, f2, adt)[0]
                        eloc = cfg.loc(f2.main)
        if not found:
            continue
        n += 1
        k = "%s|hash-eq" % adt
        if hr == er:
            r.ok(k, cfg.loc(hf[0].main), "Hash and PartialEq both look at %s" % sorted(hr), work=2)
        else:
            r.violation(k, eloc or cfg.loc(hf[0].main),
                        "Hash of %s looks at %s but PartialEq at %s: two values with the same key are distinct set entries (a device trusted twice stays trusted after one revoke)" % (
                            adt.rsplit("::", 1)[-1], sorted(hr), sorted(er)), work=2)
    if n < 2:
        r.anchor_missing("types with a hand-written Hash and a PartialEq (found %d)" % n)


def r5_verify_device(ctx):
    ws = ctx.ws
    r = ctx.rule("C11-R5", "verify_device: Ok for an existing account only after a trusted key verified the signature over the message",
                 floor=2, kind="K2 + K4")
    fns = ws.find_fns(r"^sos_server::backend::Backend::verify_device$")
    if not fns:
        r.anchor_missing("Backend::verify_device")
        return
    f = fns[0]
    body = cfg.code_body(ws, f)
    live = cfg.live_blocks(body)
    oks = [e.block for e in cfg.exits(body) if e.kind == "ok"]
    ver = [(i, t) for i, t in idioms.real_calls(body, live) if cname(t) == "verify"]
    if not ver:
        r.violation(f.root + "|verifies", cfg.loc(body), "verify_device no longer verifies a signature", work=1)
        return
    fg = FlowGraph(ws, f)
    vi, vt = ver[0]
    sl_m = fg.back_from_operand(body, vt["args"][1])
    sl_s = fg.back_from_operand(body, vt["args"][2])
    sl_k = fg.back_from_operand(body, vt["args"][0])
    checks = (("message", sl_m.has_var(body, "message_body")), ("signature", sl_s.has_var(body, "device_signature")),
              ("key", any(cname(t) == "list_device_keys" for _b, _i, t in sl_k.calls)))
    for label, ok in checks:
        k = "%s|verify-%s" % (f.root, label)
        if ok:
            r.ok(k, cfg.loc(body, vi), "%s argument has the required source" % label, work=1)
        else:
            r.violation(k, cfg.loc(body, vi), "VerifyingKey::verify is not applied to the request's %s%s" % (label, " from the account's trusted device set" if label == "key" else ""), work=1)
    # Ok exits: those reachable without the verify call must lie in the account-not-found arm
    e1 = [o for o in oks if o in cfg.reach(body, [0], cut_blocks=[vi])]
    opt = [es for es in cfg.enum_switches(body) if es.enum == "core::option::Option"]
    none_cut = []
    for es in opt:
        none_cut.append(es.targets.get("None", es.otherwise))
    still = [o for o in e1 if o in cfg.reach(body, [0], cut_blocks=[vi] + none_cut)]
    k = f.root + "|ok-only-verified-or-unknown-account"
    if still:
        r.violation(k, cfg.loc(body, still[0]), "verify_device returns Ok for an existing account on a path without signature verification", work=len(body.blocks))
    else:
        r.ok(k, cfg.loc(body), "Ok needs verify() except in the account-not-found arm (%d such exit)" % len(e1), work=len(body.blocks))
    # the verified-Ok is on the is_ok() true edge
    good = False
    for i in live:
        bs = cfg.bool_switch(body, i)
        if bs and bs.def_is_term and cname(bs.defn) == "is_ok":
            okr = cfg.reach(body, [bs.false_t], cut_blocks=[bs.block])
            # the false edge must not return Ok directly (it continues the loop)
            direct = [o for o in oks if o in cfg.reach(body, [bs.false_t], cut_blocks=[vi] + none_cut)]
            if not direct:
                good = True
    k = f.root + "|ok-on-verified-edge"
    if good:
        r.ok(k, cfg.loc(body, vi), "a failed verification does not lead to Ok", work=len(body.blocks))
    else:
        r.violation(k, cfg.loc(body, vi), "the outcome of verify() does not gate the Ok return", work=len(body.blocks))


def r6_trusted_set_refreshed(ctx):
    ws = ctx.ws
    r = ctx.rule("C11-R6", "the cached trusted-device set is refreshed whenever the device log is patched or replaced",
                 floor=2, kind="K3 pairing")
    n = 0
    cands = []
    for f in ws.fns.values():
        if f.crate == "sos_server_storage" and f.meta.get("name") in ("merge_device", "force_merge_device"):
            cands.append((f, f.meta.get("name"), f.root))
    # a server storage type that does not override the method runs the trait's
    # default body: that body is then the one the server executes
    for tr in ("sos_sync::traits::Merge", "sos_sync::traits::ForceMerge"):
        tdef = ws.traits.get(tr)
        for imp in ws.impls_of(tr):
            if imp.get("crate") != "sos_server_storage":
                continue
            have = {it["name"] for it in imp["items"]}
            for it in (tdef or {}).get("items", []):
                if it["name"] in ("merge_device", "force_merge_device") and it["name"] not in have and it.get("has_default"):
                    df = ws.fns.get(it["path"])
                    if df is not None:
                        cands.append((df, it["name"], "<%s as %s>::%s (inherited default)" % (imp.get("self_ty"), tr, it["name"])))
    for f, nm, label in cands:
        body = cfg.code_body(ws, f)
        live = cfg.live_blocks(body)
        names = [cname(t) for _i, t in idioms.real_calls(body, live)]
        if nm in names and not ({"patch_checked", "replace_all_events"} & set(names)):
            r.ok(label + "|delegate", cfg.loc(body), "enum dispatch", work=len(body.blocks))
            continue
        muts = [i for i, t in idioms.real_calls(body, live) if cname(t) in ("patch_checked", "replace_all_events")]
        if not muts:
            continue
        n += 1
        sets = [i for i, t in idioms.real_calls(body, live) if cname(t) == "set_devices"]
        k = label + "|set_devices"
        if not sets:
            r.violation(k, cfg.loc(body), "%s changes the device log but never refreshes the trusted device set: revoked devices stay trusted" % nm, work=len(body.blocks))
            continue
        # every Ok exit that follows a successful mutation passes set_devices,
        # unless the verdict was a Conflict (nothing applied)
        oks = [e.block for e in cfg.exits(body) if e.kind == "ok"]
        cut_edges = set()
        for es in cfg.enum_switches(body, re.compile(r"patch::CheckedPatch$")):
            for v, tgt in es.targets.items():
                if v == "Conflict":
                    cut_edges.add((es.block, tgt))
            if "Success" in es.targets and es.otherwise_live:
                cut_edges.add((es.block, es.otherwise))
        start = []
        for m in muts:
            s, _at = idioms.success_start(body, m)
            start.extend(s)
        bad = [o for o in oks if o in cfg.reach(body, start, cut_blocks=sets, cut_edges=cut_edges)]
        if bad and nm == "merge_device":
            # a Success arm matched by `if let Success` leaves Conflict on the otherwise edge
            cut2 = set(cut_edges)
            for es in cfg.enum_switches(body, re.compile(r"patch::CheckedPatch$")):
                if "Success" in es.targets and "Conflict" not in es.targets:
                    cut2.add((es.block, es.otherwise))
            bad = [o for o in oks if o in cfg.reach(body, start, cut_blocks=sets, cut_edges=cut2)]
        if bad:
            r.violation(k, cfg.loc(body, bad[0]), "%s can return Ok after changing the device log without set_devices" % nm, work=len(body.blocks),
                        witness=cfg.path_lines(body, cfg.find_path(body, start, bad, cut_blocks=sets, cut_edges=cut_edges)))
        else:
            r.ok(k, cfg.loc(body, sets[0]), "set_devices on every accepted path", work=len(body.blocks))
        # converse: where the patch has a verdict, the cache is rebuilt only on the
        # accepted edge.  A refused patch may have been preceded by a rewind
        # (event_patch) that is rolled back on the log only: a cache rebuilt from
        # the rewound log would re-admit devices revoked after the rewind point.
        switches = cfg.enum_switches(body, re.compile(r"patch::CheckedPatch$"))
        if switches:
            k2 = label + "|set_devices-only-when-accepted"
            acc = set()
            for es in switches:
                if "Success" in es.targets:
                    acc.add((es.block, es.targets["Success"]))
                elif "Conflict" in es.targets and es.otherwise_live:
                    acc.add((es.block, es.otherwise))
            refused = cfg.reach(body, start, cut_edges=acc)
            early = [b for b in sets if b in refused]
            if early:
                r.violation(k2, cfg.loc(body, early[0]),
                            "%s rebuilds the trusted device set on a path that has not passed the Success verdict of the patch: a refused patch (after a rewind that is rolled back on the log only) changes who is trusted" % nm,
                            work=len(refused), witness=cfg.path_lines(body, cfg.find_path(body, start, early, cut_edges=acc)))
            else:
                r.ok(k2, cfg.loc(body, sets[0]), "set_devices only behind CheckedPatch::Success", work=len(refused))
    if n == 0:
        r.anchor_missing("server storage merge_device / force_merge_device bodies")


# extra build configurations analysed in the thorough tier
THOROUGH_CONFIGS = ['server-all', 'server-min']


def run(ctx):
    ctx.explanation = (
        "Routes × authentication matrix decided from the MIR of Server::router, every registered handler, "
        "authenticate_endpoint, BearerToken::new and Backend::verify_device: (R1) each route is tabled public with a "
        "reason or calls authenticate_endpoint; (R2) only request parsing is reachable before the Ok edge of "
        "authenticate_endpoint; (R3) the signed bytes are the body that is acted on (or the path), the account id comes "
        "from the header; (R4) every Ok of authenticate_endpoint passes bearer, access list and verify_device over the "
        "signed_data parameter; (R5) verify_device returns Ok for an existing account only on the verified edge; (R6) "
        "device-log merges refresh the trusted set on every accepted path and only behind the Success verdict of the patch. Ed25519 verification and axum extraction are trusted.")
    ctx.trust("ed25519-dalek VerifyingKey::verify", "axum routes only what Server::router registers",
              "axum extractors run before the handler body")
    authed = r1_routes(ctx)
    r2_auth_dominates(ctx, authed)
    r3_signature_covers_acted_bytes(ctx, authed)
    r4_authenticate_endpoint(ctx)
    r5_verify_device(ctx)
    r6_trusted_set_refreshed(ctx)
    r7_access_lists(ctx)
    r8_hash_eq_agree(ctx)
