"""C08 — Commit comparison tells the truth about who is ahead."""
import re
from .. import cfg, idioms
from ..flow import FlowGraph
from ..idioms import cname

COMPARISON = re.compile(r"sos_core::commit::proof::Comparison$")
PROOF_TY = r"sos_core::commit::proof::CommitProof"
VERIFY = re.compile(r"rs_merkle::merkle_proof::MerkleProof::<.*>::verify$|rs_merkle::merkle_proof::MerkleProof::<T>::verify$")


def _proof_bases(sl, field, getter):
    """Base (body path, local) of every read of CommitProof.<field> / call of
    CommitProof::<getter> in a slice."""
    out = set()
    for (b, p) in sl.reads_field(field, PROOF_TY):
        out.add((b.path, cfg.place_local(p)))
    for (b, i, t) in sl.calls:
        if re.search(r"CommitProof::%s$" % getter, t.get("callee") or "") and t["args"]:
            l = cfg.op_local(t["args"][0])
            if l is not None:
                out.add((b.path, "call:%d" % l))
    return out


def r1_verify_against_own_tree(ctx):
    ws = ctx.ws
    r = ctx.rule("C08-R1", "a Merkle proof is verified with the root, indices and leaf count of the same CommitProof",
                 floor=2, kind="K4 value flow")
    n = 0
    for f in ws.fns.values():
        if f.crate in idioms.TEST_CRATES:
            continue
        for (b, i, t) in f.calls():
            if not cfg.call_matches(t, VERIFY) or len(t["args"]) != 5:
                continue
            n += 1
            fg = FlowGraph(ws, f)
            key = f.root
            a = t["args"]
            want = (("proof", 0, "proof", "proof"), ("root", 1, "root", "root"),
                    ("indices", 2, "indices", "indices"), ("total_leaves_count", 4, "length", "len"))
            for label, idx, field, getter in want:
                sl = fg.back_from_operand(b, a[idx])
                bases = _proof_bases(sl, field, getter)
                # a getter call on `self`/a proof param: resolve through the receiver's slice
                for (cb, ci, ct) in sl.calls:
                    if re.search(r"CommitProof::%s$" % getter, ct.get("callee") or ""):
                        bases.add(("getter", getter))
                k = "%s|verify-arg:%s" % (key, label)
                if bases:
                    r.ok(k, cfg.loc(b, i), "%s derives from the proof's `%s`" % (label, field), work=len(sl.nodes) + 1)
                else:
                    src = sorted({cname(ct) for _b, _i, ct in sl.calls if not idioms.is_noise(ct)})[:6]
                    r.violation(k, cfg.loc(b, i),
                                "argument `%s` of MerkleProof::verify does not derive from the CommitProof's own `%s` (sources: %s): proofs from a tree of another length cannot verify" % (
                                    label, field, src or "constants/params"),
                                work=len(sl.nodes) + 1)
    if n == 0:
        r.anchor_missing("calls of rs_merkle MerkleProof::verify")


def _bool_true_edges(body, pred):
    out = []
    for i in cfg.live_blocks(body):
        bs = cfg.bool_switch(body, i)
        if bs and bs.defn is not None and pred(bs):
            out.append(bs)
    return out


def r2_verdict_table(ctx):
    ws = ctx.ws
    r = ctx.rule("C08-R2", "CommitTree::compare: Equal only under root equality, Contains only under a verified proof, else Unknown",
                 floor=5, kind="K2 edge dominance + converse (Unknown only behind a failed test)")
    fn = ws.fn("sos_core::commit::tree::CommitTree::compare")
    if not fn:
        r.anchor_missing("CommitTree::compare")
        return
    body = cfg.code_body(ws, fn)
    live = cfg.live_blocks(body)

    def is_root_eq(bs):
        d = bs.defn
        return bs.def_is_term and cname(d) in ("eq", "ne") and any("CommitHash" in (x or "") for x in (d.get("callee_full"), d.get("resolved_full")))

    def is_verify(bs):
        return bs.def_is_term and cfg.call_matches(bs.defn, VERIFY)

    def is_len_eq(bs):
        d = bs.defn
        return (not bs.def_is_term) and d.get("k") == "bin" and d.get("op") in ("Eq", "Ne")

    eqs = _bool_true_edges(body, is_root_eq)
    vers = _bool_true_edges(body, is_verify)
    lens = _bool_true_edges(body, is_len_eq)
    aggs = {}
    for i in sorted(live):
        for s in body.blocks[i]["s"]:
            if s.get("k") == "agg" and COMPARISON.search(s.get("adt") or ""):
                aggs.setdefault(s["variant"], []).append(i)
    for v in ("Equal", "Contains", "Unknown"):
        if v not in aggs:
            r.violation(fn.root + "|constructs:" + v, cfg.loc(body), "compare never produces Comparison::%s" % v, work=len(body.blocks))
    def pos_edge(bs):
        d = bs.defn
        neg = (cname(d) == "ne") if bs.def_is_term else (d.get("op") == "Ne")
        return (bs.block, bs.false_t if neg else bs.true_t)
    for i in aggs.get("Equal", []):
        cut = {pos_edge(bs) for bs in eqs}
        k = fn.root + "|Equal-needs-root-eq"
        if not eqs or i in cfg.reach(body, [0], cut_edges=cut):
            r.violation(k, cfg.loc(body, i), "Comparison::Equal is produced on a path that does not pass the root-equality test", work=len(body.blocks))
        else:
            r.ok(k, cfg.loc(body, i), "Equal only on the true edge of root == proof.root", work=len(body.blocks))
    for i in aggs.get("Contains", []):
        cut = {pos_edge(bs) for bs in vers}
        k = fn.root + "|Contains-needs-verify"
        if not vers or i in cfg.reach(body, [0], cut_edges=cut):
            r.violation(k, cfg.loc(body, i), "Comparison::Contains is produced without a successful MerkleProof::verify", work=len(body.blocks))
        else:
            r.ok(k, cfg.loc(body, i), "Contains only on the true edge of proof.verify(..)", work=len(body.blocks))
        cut2 = {pos_edge(bs) for bs in lens}
        k2 = fn.root + "|Contains-needs-all-indices"
        if not lens or i in cfg.reach(body, [0], cut_edges=cut2):
            r.violation(k2, cfg.loc(body, i), "Comparison::Contains is produced without checking that every proven index resolved to a local leaf", work=len(body.blocks))
        else:
            r.ok(k2, cfg.loc(body, i), "Contains only when all indices resolved locally", work=len(body.blocks))
    # completeness: Unknown is the answer only after a failed verification or an
    # index the local tree does not have — a proof whose positions agree must not
    # be refused for any other reason (e.g. a shortcut on the lengths)
    fg = FlowGraph(ws, fn)
    resolved = [bs for bs in lens if fg.back([(body.path, bs.local)]).reads_field("indices", PROOF_TY)]

    def neg_edge(bs):
        pb, pt = pos_edge(bs)
        return (bs.block, bs.true_t if pt == bs.false_t else bs.false_t)
    for n_, i in enumerate(aggs.get("Unknown", [])):
        k = fn.root + "|Unknown-needs-failed-verify#%d" % (n_ + 1)
        cut = {neg_edge(bs) for bs in vers} | {neg_edge(bs) for bs in resolved}
        if not vers or not resolved:
            r.violation(k, cfg.loc(body, i), "compare has no verification / index-resolution test to justify Unknown", work=len(body.blocks))
        elif i in cfg.reach(body, [0], cut_edges=cut):
            p = cfg.find_path(body, [0], [i], cut_edges=cut)
            r.violation(k, cfg.loc(body, i), "Comparison::Unknown is produced on a path (%s) that neither failed MerkleProof::verify nor found a proven index missing locally: a proof whose positions agree is refused" % (cfg.path_lines(body, p) if p else "?"), work=len(body.blocks))
        else:
            r.ok(k, cfg.loc(body, i), "Unknown only behind a failed verify or an unresolved index", work=len(body.blocks))
    # every Ok exit is one of the three aggregates
    for e in cfg.exits(body):
        if e.kind == "ok":
            sl_ok = False
            p = cfg.op_local(e.payload[0]) if e.payload else None
            for blk in body.blocks:
                for s in blk["s"]:
                    if s.get("d") == str(p) and s.get("k") == "agg" and COMPARISON.search(s.get("adt") or ""):
                        sl_ok = True
            k = fn.root + "|ok-exit-bb-is-verdict"
            if not sl_ok:
                r.violation(k + ":%s" % e.variant, cfg.loc(body, e.block), "an Ok exit of compare returns something other than a freshly built verdict", work=1)


def r3_consumers_exhaustive(ctx):
    ws = ctx.ws
    r = ctx.rule("C08-R3", "code that acts on a verdict distinguishes all three outcomes",
                 floor=7, kind="K6 handler table")
    roles = re.compile(r"(EventLog<T>>::patch_checked|sos_protocol::diff::SyncComparison::diff)")
    n = 0
    for b in ws.bodies.values():
        if b.crate in idioms.TEST_CRATES or not roles.search(b.path):
            continue
        for es in cfg.enum_switches(b, COMPARISON):
            n += 1
            k = "%s|switch@%s" % (b.root, "+".join(sorted(es.targets)))
            if es.otherwise_live and "Unknown" not in es.targets:
                r.violation(k, cfg.loc(b, es.block),
                            "a wildcard arm treats Comparison::Unknown like %s" % sorted(set(("Equal", "Contains", "Unknown")) - set(es.targets)),
                            work=1)
            elif len(set(es.targets.values())) < len(es.targets):
                r.violation(k, cfg.loc(b, es.block), "two verdicts share one arm", work=1)
            else:
                r.ok(k, cfg.loc(b, es.block), "arms: %s%s" % (sorted(es.targets), " + wildcard" if es.otherwise_live else ""), work=1)
    if n == 0:
        r.anchor_missing("switches on Comparison in patch_checked / SyncComparison::diff")


def r4_ancestor_scan(ctx):
    ws = ctx.ws
    r = ctx.rule("C08-R4", "the ancestor scan rebuilds the checkpoint from the leaves up to the verified index",
                 floor=2, kind="K2 + K4")
    it = ws.find_fns(r"auto_merge::AutoMerge::iterate_scan_proofs$")
    cp = ws.find_fns(r"auto_merge::AutoMerge::compare_proof$")
    if not it or not cp:
        r.anchor_missing("AutoMerge::iterate_scan_proofs / compare_proof")
        return
    f = cp[0]
    body = cfg.code_body(ws, f)
    # compare_proof returns Some only on the verified edge
    somes = []
    for i in sorted(cfg.live_blocks(body)):
        t = body.blocks[i].get("term")
    fg = FlowGraph(ws, f)
    vs = [(i, t) for i, t in idioms.real_calls(body) if cname(t) == "verify_leaves"]
    if not vs:
        r.violation(f.root + "|uses-verify_leaves", cfg.loc(body), "compare_proof no longer verifies the proof against local leaves", work=1)
    else:
        # the bool switched on derives from verify_leaves
        ok = False
        for i in cfg.live_blocks(body):
            bs = cfg.bool_switch(body, i)
            if not bs:
                continue
            sl = fg.back([(body.path, bs.local)])
            if any(cname(ct) == "verify_leaves" for _b, _i, ct in sl.calls):
                # the None result must be what the false edge yields: Some-producing calls unreachable from false edge
                some_blocks = [j for j, tt in idioms.real_calls(body) if cname(tt) in ("map", "last", "copied")]
                if not set(some_blocks) & cfg.reach(body, [bs.false_t]):
                    ok = True
        if ok:
            r.ok(f.root + "|some-only-when-verified", cfg.loc(body), "a commit is returned only on the verified edge", work=len(body.blocks))
        else:
            r.violation(f.root + "|some-only-when-verified", cfg.loc(body), "compare_proof can return a commit without a verified proof", work=len(body.blocks))
    f = it[0]
    body = cfg.code_body(ws, f)
    fg = FlowGraph(ws, f)
    found = False
    for i, t in idioms.real_calls(body):
        if re.search(r"CommitTree::append$", t.get("callee") or ""):
            found = True
            sl = fg.back_from_operand(body, t["args"][-1])
            has_idx = bool(sl.reads_field("indices", PROOF_TY))
            has_leaves = sl.has_var(body, "leaves")
            k = f.root + "|checkpoint-from-matched-index"
            if has_idx and has_leaves:
                r.ok(k, cfg.loc(body, i), "checkpoint tree = leaves[0..=index] with index from the matched proof's indices", work=len(sl.nodes))
            else:
                r.violation(k, cfg.loc(body, i), "checkpoint tree is not built from local leaves up to the matched proof index (indices:%s leaves:%s)" % (has_idx, has_leaves), work=len(sl.nodes))
    if not found:
        r.violation(f.root + "|checkpoint-from-matched-index", cfg.loc(body), "iterate_scan_proofs no longer rebuilds a checkpoint tree", work=1)


def r5_scan_page_depends_on_offset(ctx):
    """A scan page for offset k must prove the leaves k, k+1, .. positions
    behind the head: the index handed to `tree().proof(..)` has to be a function
    of the request offset — by data flow (index computed from offset, through
    arithmetic or iterator adaptors), or because a step of the index sits
    directly behind a comparison with the offset (the hand-written skip loop).
    How many records a stream happens to yield is not such a dependence."""
    ws = ctx.ws
    r = ctx.rule("C08-R5", "the proof index of a scan page is a function of the request offset",
                 floor=1, kind="K4 data flow + direct control dependence on a comparison")
    fns = ws.find_fns(r"^sos_server_storage::server_helpers::scan_log$")
    if not fns:
        r.anchor_missing("server_helpers::scan_log")
        return
    f = fns[0]
    body = cfg.code_body(ws, f)
    live = cfg.live_blocks(body)
    fg = FlowGraph(ws, f)

    def from_offset(sl):
        return sl.has_var(body, "offset") or bool(sl.reads_field("offset"))
    alldefs = cfg.defs_of(body)

    def scalar_from_offset(op, seen=None, depth=0):
        """The operand is computed from `offset` by copies, casts and arithmetic
        only (no calls, no struct fields: `res.proofs.len()` is not the offset
        although `res.offset` was assigned from it)."""
        seen = seen if seen is not None else set()
        p_ = cfg.op_place(op)
        if p_ is None or "." in p_.replace(".f0:", "", 1) and not re.match(r"^\d+\.f0:$", p_):
            return False
        l = cfg.place_local(p_)
        if body.vars.get(str(l)) == "offset":
            return True
        if l in seen or depth > 10:
            return False
        seen.add(l)
        for (_bi, st, is_term) in alldefs.get(l, []):
            if is_term:
                continue
            if st.get("k") in ("use", "cast", "bin", "un"):
                if any(scalar_from_offset(o, seen, depth + 1) for o in st["ops"]):
                    return True
        return False
    proofs = [(i, t) for i, t in idioms.real_calls(body, live) if cname(t) == "proof" and "CommitTree" in (t.get("callee") or "")]
    n = 0
    for (i, t) in proofs:
        sl = fg.back_from_operand(body, t["args"][-1])
        idx_locals = {key for (bp, key) in sl.nodes if bp == body.path and isinstance(key, int) and body.vars.get(str(key)) == "index"}
        if not idx_locals:
            continue      # a constant index (the first-proof call)
        n += 1
        k = "%s|proof#%d" % (f.root, n)
        # data flow is asked for the FIRST proof of the page: only definitions that reach the
        # call without taking a loop back edge count (`res.offset` updated at the end of the
        # loop body is still its initial value when the first index is computed)
        pre = {x for x in live if x == i or i in cfg.reach(body, [x])}                     # can reach the call
        first = cfg.reach(body, [0], cut_blocks=[i]) | {i, 0}                              # reached before the call
        fg1 = FlowGraph(ws, f, only_blocks={body.path: pre & first})
        sl1 = fg1.back_from_operand(body, t["args"][-1])
        if (sl1.has_var(body, "offset") or bool(sl1.reads_field("offset", "ScanRequest"))):
            r.ok(k, cfg.loc(body, i), "the index of the first proof of a page is computed from the request offset (data flow)", work=len(sl1.nodes))
            continue
        defs = cfg.defs_of(body)
        def_blocks = {bi for l in idx_locals for (bi, _st, _t) in defs.get(l, [])}
        ok = False
        for j in sorted(live):
            bs = cfg.bool_switch(body, j)
            if not bs or bs.defn is None or bs.def_is_term or bs.defn.get("k") != "bin" or bs.defn.get("op") not in ("Lt", "Le", "Gt", "Ge", "Eq", "Ne"):
                continue
            if not any(scalar_from_offset(o) for o in bs.defn["ops"]):
                continue
            # only a comparison inside the loop that emits the proofs steers the
            # index per iteration (an early bounds check before the loop does not)
            if not (i in cfg.reach_after(body, bs.block) and bs.block in cfg.reach_after(body, i)):
                continue
            tr = cfg.reach(body, [bs.true_t], cut_blocks=[bs.block])
            fr = cfg.reach(body, [bs.false_t], cut_blocks=[bs.block])
            if def_blocks & ((tr - fr) | (fr - tr)):
                ok = True
        if ok:
            r.ok(k, cfg.loc(body, i), "a step of the index sits directly behind a comparison with the offset", work=len(live))
        else:
            r.violation(k, cfg.loc(body, i),
                        "the index proved for a scan page does not depend on the request offset (neither by data flow nor behind a comparison with it): every page after the first proves the newest leaves again, so an ancestor more than one page back is never found",
                        work=len(live))
    if n == 0:
        r.anchor_missing("proof(&[index]) call in scan_log")


MERKLE_MUT = re.compile(r"rs_merkle::merkle_tree::MerkleTree::<.*>::(insert|append|commit|rollback|from_leaves)$")


def _field_writes(body, field):
    """(block, stmt) of every assignment whose destination is the field."""
    out = []
    for i in sorted(cfg.live_blocks(body)):
        for s in body.blocks[i]["s"]:
            d = s.get("d")
            if d and cfg.place_fields(d)[-1:] == [field]:
                out.append((i, s))
    return out


def r6_last_commit_tracks_tree(ctx):
    """`CommitState(last_commit, head)` is what each side sends for comparison
    and what `diff` uses to decide whether there is anything to push: the
    `last_commit` cache of CommitTree must name the last leaf of the tree the
    head proof is taken from. Decided per mutator of the inner Merkle tree."""
    ws = ctx.ws
    r = ctx.rule("C08-R6", "CommitTree keeps last_commit equal to the last leaf across insert/append/commit/rollback, and commit_state pairs it with the head proof of the same tree",
                 floor=6, kind="K4 value flow + K2 must-pass-through per mutator (sibling table)")
    fns = [f for f in ws.find_fns(r"^sos_core::commit::tree::CommitTree::[a-z_]+$")]
    if not fns:
        r.anchor_missing("sos_core::commit::tree::CommitTree methods")
        return
    seen = set()
    for f in fns:
        body = cfg.code_body(ws, f)
        live = cfg.live_blocks(body)
        muts = [(i, t, MERKLE_MUT.search(t.get("callee") or "").group(1)) for i, t in idioms.real_calls(body, live)
                if MERKLE_MUT.search(t.get("callee") or "") and t["args"] and "tree" in cfg.place_fields(_ref_target(body, t["args"][0]) or "")]
        name = f.root.rsplit("::", 1)[-1]
        if not muts:
            continue
        fg = FlowGraph(ws, f)
        for (i, t, op) in muts:
            k = "%s|%s" % (f.root, op)
            seen.add(op)
            if op in ("insert", "append"):
                ws_ = _field_writes(body, "maybe_last_commit")
                good = False
                for (bi, st) in ws_:
                    if st.get("k") not in ("use",) or not st.get("ops"):
                        continue
                    sl = fg.back_from_operand(body, st["ops"][0])
                    from_arg = sl.has_local(body, 2)
                    calls = {cname(ct) for _b, _i, ct in sl.calls}
                    if op == "insert" and from_arg:
                        good = True
                    if op == "append" and from_arg and "last" in calls and not (calls & {"first", "nth", "get"}):
                        good = True
                if good:
                    r.ok(k, cfg.loc(body, i), "the pending last commit is taken from the %s" % ("inserted hash" if op == "insert" else "last of the appended hashes"), work=len(body.blocks))
                else:
                    r.violation(k, cfg.loc(body, i), "CommitTree::%s changes the leaves but does not record the new last leaf as the pending last commit: after commit(), last_commit()/commit_state() name a leaf that is not the tree's last" % name, work=len(body.blocks))
            elif op == "commit":
                good = False
                for (bi, st) in _field_writes(body, "last_commit"):
                    if st.get("k") == "use" and st.get("ops"):
                        sl = fg.back_from_operand(body, st["ops"][0])
                        if any(cfg.place_fields(p)[-1:] == ["maybe_last_commit"] for _b, p in sl.reads) or sl.reads_field("maybe_last_commit"):
                            good = True
                # the assignment is gated by the presence of a pending value (a commit with
                # nothing pending keeps the cache) and by nothing else
                if good:
                    wblocks = {bi for bi, _st in _field_writes(body, "last_commit")}
                    gated = False
                    for j in sorted(live):
                        bs = cfg.bool_switch(body, j)
                        if not bs:
                            continue
                        sl = fg.back([(body.path, bs.local)])
                        if not (sl.reads_field("maybe_last_commit") or any(cfg.place_fields(p)[-1:] == ["maybe_last_commit"] for _b, p in sl.reads)):
                            good = False
                            continue
                        tr = cfg.reach(body, [bs.true_t], cut_blocks=[bs.block])
                        fr = cfg.reach(body, [bs.false_t], cut_blocks=[bs.block])
                        if wblocks and (wblocks <= (tr - fr) or wblocks <= (fr - tr)):
                            gated = True
                    for es in cfg.enum_switches(body):
                        # `if let Some(x) = self.maybe_last_commit.take()` form
                        sl = fg.back([fg.key(body, es.place)])
                        some_t = es.targets.get("Some")
                        if some_t is None or not (sl.reads_field("maybe_last_commit") or any(cfg.place_fields(p)[-1:] == ["maybe_last_commit"] for _b, p in sl.reads) or "maybe_last_commit" in cfg.place_fields(es.place)):
                            good = False
                            continue
                        others = [b for v, b in es.targets.items() if v != "Some"] + ([es.otherwise] if es.otherwise_live else [])
                        tr = cfg.reach(body, [some_t], cut_blocks=[es.block])
                        fr = cfg.reach(body, others, cut_blocks=[es.block])
                        if wblocks and wblocks <= (tr - fr):
                            gated = True
                    if not gated:
                        good = False
                if good:
                    r.ok(k, cfg.loc(body, i), "commit() promotes the pending last commit (gated only by its presence)", work=len(body.blocks))
                else:
                    r.violation(k, cfg.loc(body, i), "CommitTree::%s commits the leaves without promoting the pending last commit to last_commit (or gates it on something else)" % name, work=len(body.blocks))
            elif op == "rollback":
                lw = _field_writes(body, "last_commit")
                mw = _field_writes(body, "maybe_last_commit")
                after = cfg.reach_after(body, i)
                rets = [j for j in after if (body.blocks[j].get("term") or {}).get("k") == "return"]
                bypass = cfg.find_path(body, [x for x in cfg.succs(body)[i]], rets, cut_blocks=[b for b, _s in lw]) if rets else None
                from_leaves = False
                for (bi, st) in lw:
                    if st.get("k") == "use" and st.get("ops"):
                        sl = fg.back_from_operand(body, st["ops"][0])
                        calls = {cname(ct) for _b, _i, ct in sl.calls}
                        if "leaves" in calls and "last" in calls and not (calls & {"first", "nth", "get"}):
                            from_leaves = True
                cleared = any(st.get("k") in ("agg", "use") and bi in after | {i} for bi, st in mw)
                if not rets:
                    r.violation(k, cfg.loc(body, i), "no return after the rollback call", work=len(body.blocks))
                elif bypass is not None or not from_leaves or not cleared:
                    why = []
                    if bypass is not None:
                        why.append("a path from the rollback to the return does not reassign last_commit (%s)" % cfg.path_lines(body, bypass))
                    if not from_leaves:
                        why.append("last_commit is not recomputed from the last of the restored leaves")
                    if not cleared:
                        why.append("the pending last commit is not cleared")
                    r.violation(k, cfg.loc(body, i), "CommitTree::%s restores the committed leaves but %s: last_commit()/commit_state() keep naming a leaf that was rolled back" % (name, "; ".join(why)), work=len(body.blocks))
                else:
                    r.ok(k, cfg.loc(body, i), "rollback() clears the pending value and recomputes last_commit from the restored leaves on every path", work=len(body.blocks))
    for op in ("insert", "append", "commit", "rollback"):
        if op not in seen:
            r.anchor_missing("CommitTree method calling MerkleTree::%s on self.tree" % op)
    # last_commit() reads the committed cache; commit_state pairs it with head() of the same self
    lc = ws.find_fns(r"^sos_core::commit::tree::CommitTree::last_commit$")
    cs = ws.find_fns(r"^sos_core::commit::tree::CommitTree::commit_state$")
    if not lc or not cs:
        r.anchor_missing("CommitTree::last_commit / commit_state")
        return
    body = cfg.code_body(ws, lc[0])
    fg = FlowGraph(ws, lc[0])
    sl = fg.back([(body.path, 0)])
    rd = {cfg.place_fields(p)[-1] for _b, p in sl.reads if cfg.place_fields(p)}
    k = lc[0].root + "|reads-committed-cache"
    if "last_commit" in rd and "maybe_last_commit" not in rd:
        r.ok(k, cfg.loc(body), "last_commit() returns the committed cache", work=len(sl.nodes))
    else:
        r.violation(k, cfg.loc(body), "last_commit() does not return the committed last_commit field (reads %s)" % sorted(rd), work=len(sl.nodes))
    body = cfg.code_body(ws, cs[0])
    fg = FlowGraph(ws, cs[0])
    k = cs[0].root + "|pairs-last-commit-with-head"
    okc = False
    for e in cfg.exits(body):
        pass
    aggs = [(i, s) for i in sorted(cfg.live_blocks(body)) for s in body.blocks[i]["s"] if s.get("k") == "agg" and s.get("ak") == "adt" and (s.get("adt") or "").endswith("CommitState")]
    for (i, s) in aggs:
        if len(s["ops"]) != 2:
            continue
        s0 = fg.back_from_operand(body, s["ops"][0])
        s1 = fg.back_from_operand(body, s["ops"][1])
        c0 = {cname(ct) for _b, _i, ct in s0.calls}
        c1 = {cname(ct) for _b, _i, ct in s1.calls}
        if "last_commit" in c0 and "head" in c1 and not (c0 & {"first_commit", "leaves"}) and "first_commit" not in c1:
            okc = True
    if okc:
        r.ok(k, cfg.loc(body), "CommitState = (last_commit(), head()) of the same tree", work=len(body.blocks))
    else:
        r.violation(k, cfg.loc(body), "commit_state() no longer pairs last_commit() with head() of the same tree", work=len(body.blocks))


def _ref_target(body, op):
    """Place a `&mut self.tree` operand refers to (one ref statement back)."""
    l = cfg.op_local(op)
    if l is None:
        return None
    for (_bi, st, is_term) in cfg.defs_of(body).get(l, []):
        if not is_term and st.get("k") in ("ref", "refmut") :
            return st.get("p") or (cfg.op_place(st["ops"][0]) if st.get("ops") else None)
    return None


def run(ctx):
    ctx.explanation = (
        "Value-flow and edge-dominance rules over CommitTree::compare, CommitProof::verify_leaves, every call of "
        "rs_merkle::MerkleProof::verify and the consumers of Comparison: (R1) root, indices and total leaf count "
        "passed to verify come from the same CommitProof; (R2) Equal/Contains are constructed only on the true edges "
        "of root equality / (all indices resolved and verify); (R3) consumers distinguish Unknown; (R4) the ancestor "
        "scan returns a commit only for a verified proof and rebuilds the checkpoint from the matched index; (R5) the index proved for a scan page is a function of the request offset; (R6) CommitTree keeps its last_commit cache equal to the last leaf across every mutator of the inner tree and commit_state pairs it with the head proof. Decides "
        "how verdicts are sourced; soundness of the Merkle scheme itself is rs_merkle's (trusted).")
    ctx.trust("rs_merkle::MerkleProof::verify is a sound Merkle multi-proof verifier")
    r1_verify_against_own_tree(ctx)
    r2_verdict_table(ctx)
    r3_consumers_exhaustive(ctx)
    r4_ancestor_scan(ctx)
    r5_scan_page_depends_on_offset(ctx)
    r6_last_commit_tracks_tree(ctx)
