"""C01 — Folder contents obey read-your-writes and survive reload."""
import re
from .. import cfg, idioms, sql
from ..idioms import cname

ENTRY = "sos_vault::encrypted_entry::EncryptedEntry"
METHOD_EVENT = {
    "set_vault_name": "SetVaultName", "set_vault_flags": "SetVaultFlags", "set_vault_meta": "SetVaultMeta",
    "insert_secret": "CreateSecret", "update_secret": "UpdateSecret", "delete_secret": "DeleteSecret",
}
WRITE_EVENT = "sos_core::events::write::WriteEvent"


def _entry_trait(ws):
    for tp in ws.traits:
        if tp.endswith("::EncryptedEntry"):
            return tp
    return None


def r1_mirror_before_memory(ctx):
    ws = ctx.ws
    r = ctx.rule("C01-R1", "the access point writes each mutation to the storage mirror before memory, and a mirror failure leaves memory untouched",
                 floor=6, kind="K3 pairing + K2 ordering")
    tp = _entry_trait(ws)
    if not tp:
        r.anchor_missing("trait EncryptedEntry")
        return
    n = 0
    for f in ws.fns.values():
        if not re.search(r"<sos_vault::access_point::AccessPoint<E> as sos_vault::access_point::SecretAccess>::\w+$", f.root):
            continue
        body = cfg.code_body(ws, f)
        live = cfg.live_blocks(body)
        mem = [(i, t) for i, t in idioms.real_calls(body, live) if t.get("trait") == tp and t.get("dispatch") is None
               and cname(t) in set(METHOD_EVENT) | {"replace_vault"}]
        if not mem:
            continue
        for (mi, mt) in mem:
            m = cname(mt)
            n += 1
            mir = [(i, t) for i, t in idioms.real_calls(body, live) if t.get("trait") == tp and t.get("dispatch") == "dyn" and cname(t) == m]
            k = "%s|%s" % (f.root, m)
            if not mir:
                r.violation(k, cfg.loc(body, mi), "`%s` changes the in-memory vault but is never mirrored to the storage writer: the change is lost on reload" % m, work=len(live))
                continue
            xi, _xt = mir[0]
            rb = idioms.result_branches(body, xi)
            problems = []
            if rb and mi in cfg.reach(body, rb[1]):
                problems.append("memory is updated even when the mirror write failed")
            if xi in cfg.reach_after(body, mi):
                problems.append("memory is updated before the mirror write")
            # memory update must not be skipped when the mirror succeeded
            if rb and mi not in cfg.reach(body, rb[0]):
                problems.append("a successful mirror write is not followed by the memory update")
            if problems:
                r.violation(k, cfg.loc(body, xi), "%s: %s" % (m, "; ".join(problems)), work=len(live))
            else:
                r.ok(k, cfg.loc(body, xi), "mirror.%s precedes vault.%s and its error propagates first" % (m, m), work=len(live))
    if n < 6:
        r.anchor_missing("AccessPoint mutators calling EncryptedEntry on the in-memory vault (found %d)" % n)


def r2_sibling_entries(ctx):
    ws = ctx.ws
    r = ctx.rule("C01-R2", "every EncryptedEntry implementation returns the event that names its operation",
                 floor=15, kind="K5 sibling agreement")
    tp = _entry_trait(ws)
    if not tp:
        r.anchor_missing("trait EncryptedEntry")
        return
    impls = ws.impls_of(tp)
    for impl in impls:
        for it in impl["items"]:
            m = it["name"]
            if m not in METHOD_EVENT or it["path"] not in ws.fns:
                continue
            f = ws.fns[it["path"]]
            body = cfg.code_body(ws, f)
            live = cfg.live_blocks(body)
            names = [cname(t) for _i, t in idioms.real_calls(body, live)]
            key = "%s|%s" % (impl.get("self_ty"), m)
            built = set()
            for b in f.bodies:
                for j in cfg.live_blocks(b):
                    for s in b.blocks[j]["s"]:
                        if s.get("k") == "agg" and s.get("adt") == WRITE_EVENT:
                            built.add(s["variant"])
            if not built and m in names:
                r.ok(key + "|delegate", cfg.loc(body), "delegates to the inner %s" % m, work=len(live))
                continue
            want = METHOD_EVENT[m]
            if want in built and not (built - {want}):
                r.ok(key, cfg.loc(body), "constructs WriteEvent::%s" % want, work=len(live))
            elif want in built:
                r.violation(key, cfg.loc(body), "%s constructs %s besides the expected WriteEvent::%s" % (m, sorted(built - {want}), want), work=len(live))
            else:
                r.violation(key, cfg.loc(body), "%s of %s constructs %s instead of WriteEvent::%s: the log records a different operation than the one performed" % (
                    m, impl.get("self_ty"), sorted(built) or "no event", want), work=len(live))
            if m in ("update_secret", "delete_secret"):
                exits = cfg.exits(body)
                nones = 0
                for b in f.bodies:
                    for j in cfg.live_blocks(b):
                        for s in b.blocks[j]["s"]:
                            if s.get("k") == "agg" and s.get("adt") == "core::option::Option" and s.get("variant") == "None":
                                nones += 1
                k2 = key + "|absent-row-none"
                if nones or "map" in names or "transpose" in names:
                    r.ok(k2, cfg.loc(body), "can report an absent row (None)", work=1)
                else:
                    r.violation(k2, cfg.loc(body), "%s always reports an event, even when the row does not exist" % m, work=1)


def r3_rewrites_truncate(ctx):
    ws = ctx.ws
    r = ctx.rule("C01-R3", "a whole-vault rewrite of the vault file truncates it first",
                 floor=1, kind="K2 typestate on file handles")
    n = 0
    for f in ws.fns.values():
        if not re.search(r"sos_filesystem::vault_writer::VaultFileWriter<E> as .*EncryptedEntry>::replace_vault$", f.root):
            continue
        n += 1
        body = cfg.code_body(ws, f)
        live = cfg.live_blocks(body)
        names = [cname(t) for _i, t in idioms.real_calls(body, live)]
        writes = [i for i, t in idioms.real_calls(body, live) if cname(t) == "write_all"]
        trunc = [i for i, t in idioms.real_calls(body, live) if cname(t) in ("set_len", "truncate", "write_exclusive")]
        trunc_true = []
        for i in trunc:
            t = body.blocks[i]["term"]
            if cname(t) == "truncate":
                c = cfg.op_const(t["args"][-1])
                if c is not None and c.get("b") is False:
                    continue
            trunc_true.append(i)
        k = f.root + "|truncates"
        if not writes:
            r.violation(k, cfg.loc(body), "replace_vault does not write the vault", work=1)
        elif trunc_true and not any(w in cfg.reach(body, [0], cut_blocks=trunc_true) for w in writes):
            r.ok(k, cfg.loc(body, trunc_true[0]), "the file is truncated before the new vault is written", work=len(live))
        else:
            r.violation(k, cfg.loc(body, writes[0]), "the vault file is rewritten from offset 0 without truncation: a shorter vault leaves stale rows of the old one behind", work=len(live))
    if n == 0:
        r.anchor_missing("VaultFileWriter::replace_vault")


def r3b_db_rewrite_replaces_rows(ctx):
    ws = ctx.ws
    r = ctx.rule("C01-R3b", "a whole-vault rewrite in the database removes the folder's old secret rows before inserting the new ones and rewrites the folder row",
                 floor=1, kind="K2 ordering")
    fns = [f for f in ws.fns.values() if re.search(r"FolderEntity.*::upsert_folder_and_secrets$", f.root)]
    if not fns:
        r.anchor_missing("FolderEntity::upsert_folder_and_secrets")
        return
    f = fns[0]
    found = False
    for b in f.bodies:
        live = cfg.live_blocks(b)
        ins = [i for i, t in idioms.real_calls(b, live) if cname(t) == "insert_folder_secrets"]
        if not ins:
            continue
        found = True
        dels = [i for i, t in idioms.real_calls(b, live) if cname(t) in ("delete_all_secrets", "replace_all_secrets")]
        upd = [i for i, t in idioms.real_calls(b, live) if cname(t) == "update_folder"]
        k = f.root + "|delete-before-insert"
        if not dels:
            r.violation(k, cfg.loc(b, ins[0]), "an existing folder is rewritten without deleting its old secret rows: secrets absent from the new vault stay in the database", work=len(live))
            continue
        # on the existing-folder path (after update_folder) the insert must pass the delete
        start = []
        for u in upd:
            sst, _ = idioms.success_start(b, u)
            start.extend(sst)
        if start and any(x in cfg.reach(b, start, cut_blocks=dels) for x in ins):
            r.violation(k, cfg.loc(b, ins[0]), "on the existing-folder path the new rows can be inserted without the old ones having been deleted", work=len(live))
        else:
            r.ok(k, cfg.loc(b, dels[0]), "delete_all_secrets precedes insert_folder_secrets when the folder already exists", work=len(live))
    if not found:
        r.anchor_missing("insert_folder_secrets call in upsert_folder_and_secrets")
    # replace_all_secrets (force merge / import): "replace" = delete, then insert
    rep = [f2 for f2 in ws.fns.values() if re.search(r"FolderEntity.*::replace_all_secrets$", f2.root)]
    if not rep:
        r.anchor_missing("FolderEntity::replace_all_secrets")
    for f2 in rep:
        seen = False
        for b in f2.bodies:
            live = cfg.live_blocks(b)
            ins = [i for i, t in idioms.real_calls(b, live) if cname(t) in ("insert_secret_by_row_id", "insert_folder_secrets", "insert_secret")]
            if not ins:
                continue
            seen = True
            dels = [i for i, t in idioms.real_calls(b, live) if cname(t) == "delete_all_secrets"]
            k = f2.root + "|delete-before-insert"
            if not dels or any(x in cfg.reach(b, [0], cut_blocks=dels) for x in ins):
                r.violation(k, cfg.loc(b, ins[0]), "replace_all_secrets inserts the new rows without first deleting the folder's old ones: secrets absent from the incoming vault stay in the database (the insert is an upsert, so nothing fails)", work=len(live))
            else:
                r.ok(k, cfg.loc(b, dels[0]), "delete_all_secrets dominates every insert", work=len(live))
        if not seen:
            r.anchor_missing("insert calls in replace_all_secrets")
    # a whole-vault replacement also carries a new name, flags and description (a
    # forced merge replays another device's log): the folder row is rewritten by
    # replace_all_secrets itself or by the function that calls it
    ROW = {"update_folder", "insert_folder", "upsert_folder_and_secrets"}
    PARTS = {"update_name", "update_flags", "update_meta"}
    def names_of(fn):
        out = set()
        for b in fn.bodies:
            out |= {cname(t) for _i, t in idioms.real_calls(b, cfg.live_blocks(b))}
        return out
    inner = set()
    for f2 in rep:
        inner |= names_of(f2)
    ncall = 0
    for g in ws.fns.values():
        if g in rep:
            continue
        gn = names_of(g)
        if "replace_all_secrets" not in gn:
            continue
        hit = False
        for b in g.bodies:
            for _i, t in idioms.real_calls(b, cfg.live_blocks(b)):
                if cname(t) == "replace_all_secrets" and "FolderEntity" in (t.get("path") or t.get("func") or str(t)):
                    hit = True
        if not hit:
            continue
        ncall += 1
        have = inner | gn
        k = g.root + "|folder-row-rewritten"
        if have & ROW or PARTS <= have:
            r.ok(k, cfg.loc(g.bodies[0]), "the folder row is rewritten with the secret rows (%s)" % sorted(have & (ROW | PARTS)), work=len(have))
        else:
            r.violation(k, cfg.loc(g.bodies[0]),
                        "the database mirror of a whole-vault replacement rewrites the secret rows but not the folder row: name, flags and description of the stored folder stay as they were while log and memory show the replaced ones",
                        work=len(have))
    if rep and ncall == 0:
        r.anchor_missing("callers of FolderEntity::replace_all_secrets")


PARTIAL_IO_OK = {
    "<sos_database::archive::import::HashingWriter<W, H> as std::io::Write>::write": "a Write impl forwarding to the inner writer and returning its count (the caller loops)",
}


def r6_no_partial_io(ctx):
    ws = ctx.ws
    r = ctx.rule("C01-R6", "partial-read / partial-write calls (read, read_buf, write) are used only in loops that consume the whole buffer",
                 floor=1, kind="K1 API-use predicate")
    n = 0
    for f in ws.fns.values():
        if f.crate in idioms.TEST_CRATES or not f.crate.startswith("sos"):
            continue
        for b, i, t in f.calls():
            nme = cname(t)
            tr = t.get("trait") or ""
            if nme not in ("read", "read_buf", "read_at", "write", "write_buf", "write_vectored") or not re.search(r"(AsyncRead|AsyncWrite|io::Read|io::Write)", tr):
                continue
            if i not in cfg.live_blocks(b):
                continue
            n += 1
            k = "%s|%s" % (f.root, nme)
            if f.root in PARTIAL_IO_OK:
                r.ok(k, cfg.loc(b, i), "tabled: " + PARTIAL_IO_OK[f.root], work=1)
            elif i in cfg.reach_after(b, i):
                r.ok(k, cfg.loc(b, i), "`%s` is inside a loop" % nme, work=1)
            else:
                r.violation(k, cfg.loc(b, i), "`%s` may transfer only part of the data and is called once, outside any loop: large vaults/logs are silently truncated (use read_to_end / read_exact / write_all)" % nme, work=1)
    if n == 0:
        r.anchor_missing("any partial read/write call (the tabled HashingWriter::write must be seen)")


def r4_sql_scoping(ctx):
    ws = ctx.ws
    r = ctx.rule("C01-R4", "every UPDATE/DELETE on vault rows is scoped to its folder (and row)",
                 floor=8, kind="K8 SQL literal analysis")
    for f in ws.find_fns(r"^sos_database::entity::folder::"):
        for st in sql.statements(ws, f):
            if st.kind not in ("Update", "Delete"):
                continue
            tab = " ".join(st.texts("update", "delete_from"))
            where = " ".join(st.texts("where_clause", "where_and"))
            key = "%s|%s" % (f.root, st.kind)
            if "folder_secrets" in tab:
                single = re.search(r"(update_secret|delete_secret)$", f.root) is not None
                if "folder_id" not in where:
                    r.violation(key, st.where(), "%s on folder_secrets without folder_id in WHERE: rows of other folders are touched — %s" % (st.kind.upper(), st.describe()[:160]), work=len(st.clauses))
                elif single and "identifier" not in where:
                    r.violation(key, st.where(), "single-row %s on folder_secrets without the secret identifier: every secret of the folder is changed" % st.kind.upper(), work=len(st.clauses))
                else:
                    r.ok(key, st.where(), "scoped by folder_id%s" % (" and identifier" if single else ""), work=len(st.clauses))
            elif re.search(r"\bfolders\b", tab):
                if re.search(r"\b(folder_id|identifier)\s*=", where):
                    r.ok(key, st.where(), "scoped by the folder key", work=len(st.clauses))
                else:
                    r.violation(key, st.where(), "%s on folders without a key column in WHERE — %s" % (st.kind.upper(), st.describe()[:160]), work=len(st.clauses))


def r5_reload_covers_every_folder(ctx):
    ws = ctx.ws
    r = ctx.rule("C01-R5", "sign-in reloads and unlocks every folder found in storage",
                 floor=2, kind="K2")
    lf = [f for f in ws.fns.values() if re.search(r"^sos_client_storage::traits::Client\w+Storage::load_folders$", f.root)]
    if lf:
        names = {cname(t) for _b, _i, t in lf[0].calls()}
        k = lf[0].root + "|reads-and-caches"
        if "read_vaults" in names and "load_caches" in names:
            r.ok(k, cfg.loc(lf[0].main), "read_vaults -> load_caches", work=1)
        else:
            r.violation(k, cfg.loc(lf[0].main), "load_folders no longer feeds read_vaults into load_caches (calls: %s)" % sorted(names & {"read_vaults", "load_caches"}), work=1)
    else:
        r.anchor_missing("ClientFolderStorage::load_folders")
    ul = [f for f in ws.fns.values() if re.search(r"^sos_client_storage::traits::Client\w+Storage::unlock$", f.root)]
    if ul:
        body = cfg.code_body(ws, ul[0])
        names = [cname(t) for _i, t in idioms.real_calls(body)]
        k = ul[0].root + "|unlocks-each"
        if "unlock" in names and ("folders_mut" in names or "iter_mut" in names or "next" in names):
            r.ok(k, cfg.loc(body), "iterates the folders and unlocks each", work=1)
        else:
            r.violation(k, cfg.loc(body), "unlock no longer iterates all folders", work=1)
    else:
        r.anchor_missing("ClientAccountStorage::unlock")


UPSERT_KEEPS = {"created_at": "the creation time of an existing row is kept on purpose"}


def r7_upsert_complete(ctx):
    """INSERT .. ON CONFLICT (key) DO UPDATE SET ..: every inserted column that is
    neither the conflict key nor tabled as deliberately kept must be updated,
    otherwise re-writing an existing row silently keeps the old value."""
    ws = ctx.ws
    r = ctx.rule("C01-R7", "an upsert updates every column it inserts (except the conflict key and tabled immutable columns)",
                 floor=1, kind="K8 SQL literal analysis")
    n = 0
    for root, f in sorted(ws.fns.items()):
        if not f.crate.startswith("sos_database") or f.crate in idioms.TEST_CRATES:
            continue
        for st in sql.statements(ws, f):
            oc = " ".join(st.texts("on_conflict"))
            if st.kind != "Insert" or "DO UPDATE" not in oc.upper():
                continue
            n += 1
            into = " ".join(st.texts("insert_into"))
            m = re.search(r"\(([^)]*)\)", into)
            cols = [c.strip() for c in m.group(1).split(",")] if m else []
            mk = re.search(r"\(([^)]*)\)", oc)
            keys = [c.strip() for c in mk.group(1).split(",")] if mk else []
            sets = re.findall(r"(\w+)\s*=\s*excluded\.", oc)
            missing = [c for c in cols if c not in keys and c not in sets and c not in UPSERT_KEEPS]
            k = "%s|upsert" % root
            if not cols or not sets:
                r.violation(k, st.where(), "cannot read the column lists of the upsert (%s)" % st.describe()[:120], work=1)
            elif missing:
                r.violation(k, st.where(),
                            "the upsert inserts %s but its DO UPDATE SET list omits %s: writing a row whose key already exists keeps the old %s (a secret re-created in another folder stays in the old one)" % (cols, missing, "/".join(missing)),
                            work=len(cols))
            else:
                r.ok(k, st.where(), "DO UPDATE SET covers %s; key %s; kept: %s" % (sets, keys, [c for c in cols if c in UPSERT_KEEPS]), work=len(cols))
    if n == 0:
        r.anchor_missing("INSERT .. ON CONFLICT .. DO UPDATE statements in sos_database")


def _expr(body, op, defs, depth=0):
    """Normalised expression tree of an operand (single-definition locals expanded)."""
    c = cfg.op_const(op)
    if c is not None:
        return ("const", c.get("i", c.get("b", c.get("s", "?"))))
    p_ = cfg.op_place(op)
    if p_ is None:
        return ("?",)
    l = cfg.place_local(p_)
    proj = ".".join(cfg.place_proj(p_))
    ds = defs.get(l, [])
    if depth > 12 or len(ds) != 1:
        return ("var", body.var_name(l) or "", proj)
    _bi, st, is_term = ds[0]
    if is_term:
        return ("call", cname(st), proj) if st["k"] == "call" else ("var", proj)
    k = st.get("k")
    if proj:
        if k == "bin" and (st.get("op") or "").endswith("WithOverflow") and proj.startswith("f0"):
            op_ = st["op"].replace("WithOverflow", "")
            a, b = (_expr(body, o, defs, depth + 1) for o in st["ops"])
            if op_ in ("Add", "Mul") and repr(b) < repr(a):
                a, b = b, a
            return (op_, a, b)
        return ("proj", proj, body.var_name(l) or "")
    if k == "use":
        return _expr(body, st["ops"][0], defs, depth + 1)
    if k == "cast":
        return ("cast", _expr(body, st["ops"][0], defs, depth + 1))
    if k == "bin":
        op_ = (st.get("op") or "").replace("WithOverflow", "")
        a, b = (_expr(body, o, defs, depth + 1) for o in st["ops"])
        if op_ in ("Add", "Mul") and repr(b) < repr(a):
            a, b = b, a
        return (op_, a, b)
    return (k or "?",)


def r8_row_cut_siblings(ctx):
    """update_secret and delete_secret of the vault file writer cut the same
    row out of the same file format: the start of the preserved tail must be
    computed from find_row's result by the same expression in both."""
    ws = ctx.ws
    r = ctx.rule("C01-R8", "the vault file writer locates the end of a row the same way when it updates and when it deletes",
                 floor=1, kind="K5 sibling agreement (expression shape)")
    shapes = {}
    for f in ws.find_fns(r"VaultFileWriter<.*>.*::(update_secret|delete_secret)$"):
        body = cfg.code_body(ws, f)
        defs = cfg.defs_of(body)
        for i, t in idioms.real_calls(body):
            if cname(t) != "splice" or len(t["args"]) < 3:
                continue
            tp = cfg.op_place(t["args"][2])
            if tp is None:
                continue
            l = cfg.place_local(tp)
            for _hop in range(6):
                ds = defs.get(l, [])
                if len(ds) == 1 and not ds[0][2] and ds[0][1].get("k") == "use" and cfg.op_place(ds[0][1]["ops"][0]):
                    l = cfg.place_local(cfg.op_place(ds[0][1]["ops"][0]))
                    continue
                break
            for (_bi, st, is_term) in defs.get(l, []):
                if not is_term and st.get("k") == "agg" and "Range" in (st.get("adt") or ""):
                    e = _expr(body, st["ops"][0], defs)
                    shapes[idioms.last_seg(f.root)] = (e, cfg.loc(body, i))
    if len(shapes) < 2:
        r.anchor_missing("splice calls in VaultFileWriter::update_secret / delete_secret (found %d)" % len(shapes))
        return
    # contradiction rule on the other end of the range: if the two callers do not agree on
    # what `tail.end` is (today: the new row's buffer length vs the file length), splice
    # must not let it influence what is preserved — it may only use `tail.start`
    ends = {}
    for f in ws.find_fns(r"VaultFileWriter<.*>.*::(update_secret|delete_secret)$"):
        body = cfg.code_body(ws, f)
        defs = cfg.defs_of(body)
        for i, t in idioms.real_calls(body):
            if cname(t) != "splice" or len(t["args"]) < 3 or cfg.op_place(t["args"][2]) is None:
                continue
            l = cfg.place_local(cfg.op_place(t["args"][2]))
            for _hop in range(6):
                ds = defs.get(l, [])
                if len(ds) == 1 and not ds[0][2] and ds[0][1].get("k") == "use" and cfg.op_place(ds[0][1]["ops"][0]):
                    l = cfg.place_local(cfg.op_place(ds[0][1]["ops"][0]))
                    continue
                break
            for (_bi, st, is_term) in defs.get(l, []):
                if not is_term and st.get("k") == "agg" and "Range" in (st.get("adt") or "") and len(st["ops"]) > 1:
                    ends[idioms.last_seg(f.root)] = idioms.render_expr(idioms.expr_tree(body, st["ops"][1], defs))
    sp = ws.find_fns(r"VaultFileWriter::<.*>::splice$")
    if sp and len(ends) == 2:
        sb = cfg.code_body(ws, sp[0])
        tl = [int(k_) for k_, v_ in sb.vars.items() if v_ == "tail" and k_.isdigit()]
        uses_end = False
        for blk in sb.blocks:
            places = []
            for st in blk["s"]:
                if st.get("k") == "dead":
                    continue
                if st.get("p"):
                    places.append(st["p"])
                for o in st.get("ops", []) or []:
                    if cfg.op_place(o):
                        places.append(cfg.op_place(o))
            for o in (blk.get("term") or {}).get("args", []) or []:
                if cfg.op_place(o):
                    places.append(cfg.op_place(o))
            for p_ in places:
                if cfg.place_local(p_) in tl and ("end" in cfg.place_fields(p_) or "." not in p_):
                    uses_end = True
        agree = ends["update_secret"] == ends["delete_secret"]
        k2 = "sos_filesystem::vault_writer::VaultFileWriter|tail-end"
        if uses_end and not agree:
            r.violation(k2, cfg.loc(sb), "splice looks at the end of the `tail` range (or at the range as a whole, e.g. is_empty()), but its callers do not agree on what that end is (update_secret: %s, delete_secret: %s): for one of them the rows after the edited one are dropped" % (ends["update_secret"], ends["delete_secret"]), work=2)
        else:
            r.ok(k2, cfg.loc(sb), "splice uses only tail.start" if not uses_end else "callers agree on tail.end (%s)" % ends["update_secret"], work=2)
    (ea, la), (eb, lb) = shapes["update_secret"], shapes["delete_secret"]
    k = "sos_filesystem::vault_writer::VaultFileWriter|tail-start"
    if ea == eb:
        r.ok(k, la, "both compute the tail start as %s" % (ea,), work=2)
    else:
        r.violation(k, la, "update_secret computes the start of the preserved tail as %s but delete_secret as %s: after find_row changed its meaning only one of them was adapted, so one of them cuts the file in the wrong place" % (ea, eb), work=2)


USER_DATA = "sos_vault::secret::UserData"


def r9_user_data_rebuild(ctx):
    """When a secret gets file attachments the file manager rebuilds its
    UserData (the attachment fields get their checksums) and storage overwrites
    the secret with the copy: the copy must carry over every part of the
    original user data (fields, comment, recovery note)."""
    ws = ctx.ws
    r = ctx.rule("C01-R9", "a rebuilt UserData carries over every part of the original",
                 floor=1, kind="K5 field/accessor coverage of a copy")
    adt = ws.adts.get(USER_DATA)
    fns = ws.find_fns(r"ExternalFileManager::write_update_checksum$")
    if not adt or not fns:
        if ctx.config == "workspace":
            r.anchor_missing("UserData / ExternalFileManager::write_update_checksum")
        return
    parts = [f["name"] for f in adt["variants"][0]["fields"]]
    f = fns[0]
    got = set()
    builds = False
    for b, i, t in f.calls():
        c = t.get("callee") or ""
        if "secret::UserData::" in c:
            nm = cname(t)
            if nm in parts:
                got.add(nm)
            if nm.startswith("set_") or nm.startswith("new") or nm in ("push", "fields_mut", "default"):
                builds = True
    rd, _wr = idioms.fields_touched(ws, f, USER_DATA)
    got |= rd
    # a rebuild that starts from a clone of the original carries everything over
    if any(cname(t) == "clone" and "UserData" in ((t.get("callee_full") or "") + (t.get("self_ty") or "") + " ".join(t.get("targs") or [])) for _b, _i, t in f.calls()):
        got |= set(parts)
    k = f.root + "|copies-user-data"
    if not builds and not got:
        r.ok(k, cfg.loc(f.main), "write_update_checksum no longer rebuilds a UserData (nothing to carry over)", work=1)
        return
    miss = [p_ for p_ in parts if p_ not in got]
    if miss:
        r.violation(k, cfg.loc(f.main), "the UserData rebuilt for a secret with new attachments never reads `%s` of the original: that part of what the user wrote is lost as soon as a file is attached" % "`, `".join(miss), work=len(parts))
    else:
        r.ok(k, cfg.loc(f.main), "the rebuilt UserData reads %s of the original" % sorted(got), work=len(parts))


def run(ctx):
    ctx.explanation = (
        "Pairing/ordering, sibling-agreement and SQL rules on the write path of folder contents: (R1) every mutator of "
        "the access point that changes the in-memory vault calls the same-named method on the storage mirror first, the "
        "mirror's error branch cannot reach the memory update and its success branch does; (R2) each of the three "
        "EncryptedEntry implementations constructs exactly the WriteEvent variant that names its operation and can "
        "report an absent row; (R3) the whole-vault rewrite truncates the file first; (R4) every UPDATE/DELETE on "
        "folder_secrets carries folder_id (single-row ones also the identifier) and on folders its key; (R5) sign-in "
        "reload/unlock cover all folders. Equality of read values over histories and the row-splice arithmetic are not decided.")
    ctx.trust("sqlite", "tokio file I/O")
    r1_mirror_before_memory(ctx)
    r2_sibling_entries(ctx)
    r3_rewrites_truncate(ctx)
    r3b_db_rewrite_replaces_rows(ctx)
    r4_sql_scoping(ctx)
    r5_reload_covers_every_folder(ctx)
    r6_no_partial_io(ctx)
    r7_upsert_complete(ctx)
    r8_row_cut_siblings(ctx)
    r9_user_data_rebuild(ctx)
