"""C06 — Persisted event logs are faithful: storage, tree and order agree."""
import re
from .. import cfg, idioms, sql
from ..flow import FlowGraph
from ..idioms import EVENTLOG, cname, last_seg

EVENT_TABLES_FN = "sos_database::entity::event::EventTable::as_str"
ID_COLUMN_FN = "sos_database::entity::event::EventTable::id_column"
PK = "event_id"


def _str_consts(fn):
    out = []
    for b in fn.bodies:
        for blk in b.blocks:
            for s in blk["s"]:
                for o in s.get("ops", []):
                    if isinstance(o, dict) and "s" in o:
                        out.append(o["s"])
    return out


def r1_sql_scoping(ctx):
    ws = ctx.ws
    r = ctx.rule("C06-R1", "every statement on an event table is scoped to its owner (or primary key) and ordered by event_id",
                 floor=7, kind="K8 SQL literal analysis")
    tf, cf = ws.fn(EVENT_TABLES_FN), ws.fn(ID_COLUMN_FN)
    if not tf or not cf:
        r.anchor_missing("EventTable::as_str / EventTable::id_column")
        return
    tables = set(_str_consts(tf))
    owner_cols = set(_str_consts(cf))
    r.note("event tables %s owner columns %s" % (sorted(tables), sorted(owner_cols)))
    n = 0
    for fn in ws.fns.values():
        if not fn.crate.startswith("sos_database") or fn.crate in idioms.TEST_CRATES:
            continue
        for st in sql.statements(ws, fn):
            tab_txt = st.texts("from", "delete_from", "update", "insert_into")
            tab_calls = st.callees("from", "delete_from", "update", "insert_into")
            on_event = "as_str" in tab_calls or any(t in " ".join(tab_txt) for t in tables)
            if not on_event:
                continue
            n += 1
            key = "%s|%s" % (fn.root, st.kind)
            where_txt = " ".join(st.texts("where_clause", "where_and", "where_or"))
            where_calls = st.callees("where_clause", "where_and", "where_or")
            scoped_owner = "id_column" in where_calls or any(re.search(r"\b%s\b" % c, where_txt) for c in owner_cols)
            scoped_pk = re.search(r"\b%s\s*=" % PK, where_txt) is not None
            if st.kind == "Insert":
                ins_txt = " ".join(st.texts("insert_into"))
                ok = "id_column" in st.callees("insert_into") or any(c in ins_txt for c in owner_cols)
                if ok:
                    r.ok(key, st.where(), "INSERT names the owner column", work=len(st.clauses))
                else:
                    r.violation(key, st.where(), "INSERT into an event table does not name the owner column: " + st.describe(), work=len(st.clauses))
                continue
            # commit hashes are not unique inside a log (byte-identical events):
            # a DELETE/UPDATE selected by commit_hash must pin one row by event_id
            outer = re.sub(r"\(\s*SELECT\b.*", "", where_txt, flags=re.S | re.I)
            if st.kind in ("Delete", "Update") and re.search(r"\bcommit_hash\b", outer) and not scoped_pk:
                r.violation(key + "|by-hash", st.where(),
                            "%s on an event table selects rows by commit_hash alone (no event_id): every byte-identical event of the log is affected, so rewinding past one copy also removes the earlier ones" % st.kind.upper(),
                            work=len(st.clauses))
                continue
            # sub-selects on an event table must be scoped to the owner as well
            sub_bad = None
            for m in re.finditer(r"\(\s*SELECT\b", where_txt, re.I):
                depth, j = 1, m.end()
                while j < len(where_txt) and depth:
                    depth += {"(": 1, ")": -1}.get(where_txt[j], 0)
                    j += 1
                seg = where_txt[m.end():j]
                wi = seg.upper().find("WHERE")
                cond = seg[wi:] if wi >= 0 else ""
                if not ("\ufffd" in cond or any(re.search(r"\b%s\b" % c, cond) for c in owner_cols)):
                    sub_bad = seg.strip()[:80]
                # a sub-select that resolves a commit hash to one row must take
                # the most recent one (rewind removes from the end of the log)
                if re.search(r"\bcommit_hash\b", cond) and re.search(r"\bevent_id\b", seg[:wi if wi >= 0 else len(seg)]) \
                        and not re.search(r"\bMAX\s*\(", seg[:wi], re.I) and not re.search(r"ORDER\s+BY\s+event_id\s+DESC", seg, re.I):
                    r.violation(key + "|subquery-last", st.where(),
                                "the sub-select resolves a commit hash to an event row without taking the most recent one (MAX(event_id)): with byte-identical events an earlier row is removed",
                                work=len(st.clauses))
            if sub_bad is not None:
                r.violation(key + "|subquery", st.where(),
                            "a sub-select inside the %s on an event table is not restricted to the owning log (`%s`): it can pick a row of another log with the same commit hash" % (st.kind.upper(), sub_bad),
                            work=len(st.clauses))
                continue
            if not (scoped_owner or scoped_pk):
                r.violation(key, st.where(),
                            "%s on an event table is not restricted to the owning log (no %s / %s in WHERE): it touches byte-identical events of sibling logs and earlier duplicates — %s" % (
                                st.kind.upper(), "/".join(sorted(owner_cols)), PK, st.describe()),
                            work=len(st.clauses))
                continue
            if st.kind == "Select" and scoped_owner and not scoped_pk:
                ob = " ".join(st.texts("order_by"))
                if PK not in ob:
                    r.violation(key + "|order", st.where(),
                                "SELECT of a whole log has no ORDER BY %s: records may come back out of append order — %s" % (PK, st.describe()),
                                work=len(st.clauses))
                    continue
                # every ORDER BY text of the statement (the builder may choose between an ASC
                # and a DESC one) must have event_id as its FIRST key: append order is the order
                # of the commit tree, any other leading key (created_at ..) reorders records whose
                # timestamps are not monotone
                lead_bad = [t_ for t_ in st.texts("order_by") if t_.strip() and not re.match(r"\s*%s\b" % PK, t_.strip())]
                if lead_bad:
                    r.violation(key + "|order-key", st.where(),
                                "a whole-log SELECT is ordered by `%s`: the first sort key is not %s, so streams, diffs and rewind follow another order than the commit tree (which load_commits builds in %s order)" % (lead_bad[0].strip(), PK, PK),
                                work=len(st.clauses))
                    continue
            if st.kind == "Select" and re.search(r"::(load_commits|load_events)$", fn.root):
                ob = " ".join(st.texts("order_by")).upper()
                if "DESC" in ob or "ASC" not in ob:
                    r.violation(key + "|ascending", st.where(), "%s reads the log for replay but is not ordered by event_id ASC: the tree/records come back out of append order" % idioms.last_seg(fn.root), work=len(st.clauses))
                    continue
            r.ok(key, st.where(), "scoped (%s)" % ("owner" if scoped_owner else "pk"), work=len(st.clauses))


def _tree_mutations(body, live):
    """Blocks that change the in-memory tree: CommitTree append/insert/commit
    calls or assignment to a `tree` field."""
    out = []
    for i, t in idioms.real_calls(body, live):
        if re.search(r"CommitTree::(append|insert|commit|rollback)$", t.get("callee") or ""):
            out.append((i, cname(t)))
    for i in sorted(live):
        for s in body.blocks[i]["s"]:
            d = s.get("d")
            if d and "tree" in cfg.place_fields(d) and s["k"] not in ("ref", "refmut"):
                out.append((i, "self.tree ="))
    return out


STORAGE_WRITES = {"write_all": "fs", "conn_mut": "db", "set_len": "fs"}


def r2_tree_follows_storage(ctx):
    ws = ctx.ws
    r = ctx.rule("C06-R2", "the commit tree advances only after the storage write succeeded, with the written records' hashes",
                 floor=4, kind="K2 dominance + K4 flow")
    targets = []
    for fn in ws.impl_methods(EVENTLOG, "apply_records"):
        targets.append(fn)
    for fn in ws.find_fns(r"DatabaseEventLog.*::insert_records$"):
        targets.append(fn)
    for fn in ws.impl_methods(EVENTLOG, "rewind"):
        targets.append(fn)
    if not targets:
        r.anchor_missing("apply_records / insert_records / rewind implementations")
        return
    for fn in targets:
        body = cfg.code_body(ws, fn)
        live = cfg.live_blocks(body)
        key = fn.root
        writes = [(i, t) for i, t in idioms.real_calls(body, live) if cname(t) in STORAGE_WRITES]
        muts = _tree_mutations(body, live)
        if not writes and not muts:
            r.ok(key + "|delegate", cfg.loc(body), "no storage write or tree mutation here (delegates)", work=len(body.blocks))
            continue
        if muts and not writes:
            r.violation(key + "|tree-without-write", cfg.loc(body),
                        "the tree is changed (%s) in a function that performs no storage write" % sorted({m for _i, m in muts}),
                        work=len(body.blocks))
            continue
        if writes and not muts:
            r.violation(key + "|write-without-tree", cfg.loc(body),
                        "storage is written but the in-memory tree is never updated", work=len(body.blocks))
            continue
        is_rewind = key.endswith("::rewind")
        for (wi, wt) in writes:
            rb = idioms.result_branches(body, wi)
            for (mi, mname) in muts:
                k = "%s|%s-after-%s" % (key, mname, cname(wt))
                if is_rewind:
                    # pairing only: both happen on every Ok exit (order free)
                    continue
                # dominance: with the write removed the mutation is unreachable
                if mi in cfg.reach(body, [0], cut_blocks=[wi]):
                    p = cfg.find_path(body, [0], [mi], cut_blocks=[wi])
                    r.violation(k, cfg.loc(body, mi),
                                "tree mutation %s is reachable without the storage write %s" % (mname, cname(wt)),
                                work=len(body.blocks), witness=cfg.path_lines(body, p))
                    continue
                if rb is not None:
                    _ok, err = rb
                    if mi in cfg.reach(body, err):
                        p = cfg.find_path(body, err, [mi])
                        r.violation(k, cfg.loc(body, mi),
                                    "tree mutation %s is reachable from the failure branch of %s: memory advances although storage did not" % (mname, cname(wt)),
                                    work=len(body.blocks), witness=cfg.path_lines(body, p))
                        continue
                r.ok(k, cfg.loc(body, mi), "%s only after successful %s" % (mname, cname(wt)), work=len(body.blocks))
        if is_rewind:
            oks = [e for e in cfg.exits(body) if e.kind == "ok"]
            for label, blocks in (("storage-truncation", [wi for wi, _t in writes]), ("tree-replacement", [mi for mi, _m in muts])):
                bad = [e for e in oks if e.block in cfg.reach(body, [0], cut_blocks=blocks)]
                k = "%s|ok-exit-needs-%s" % (key, label)
                if bad:
                    p = cfg.find_path(body, [0], [bad[0].block], cut_blocks=blocks)
                    r.violation(k, cfg.loc(body, bad[0].block),
                                "rewind can return Ok without %s: tree and storage get out of step" % label,
                                work=len(body.blocks), witness=cfg.path_lines(body, p))
                else:
                    r.ok(k, cfg.loc(body), "every Ok exit of rewind passes %s" % label, work=len(body.blocks))
        if is_rewind:
            # the storage side is cut at the LAST occurrence of the target
            # commit (reverse scan / MAX(event_id)); byte-identical events have
            # equal hashes, so the tree must be cut by what was removed and
            # never by a forward search for the hash
            fg = FlowGraph(ws, fn)
            FWD = re.compile(r"::(position|find|find_map|skip_while|take_while|map_while|binary_search|binary_search_by|iter_position|contains)$")
            BWD = re.compile(r"::(rposition|rfind|rev)$")
            n_tr = 0
            for bb in fn.bodies:
                for i, t in idioms.real_calls(bb, cfg.live_blocks(bb)):
                    if re.search(r"Vec.*::truncate$", t.get("callee") or ""):
                        n_tr += 1
                        sl = fg.back_from_operand(bb, t["args"][1])
                        names = [ct.get("callee") or "" for _b, _i, ct in sl.calls]
                        fwd = [n for n in names if FWD.search(n)]
                        bwd = [n for n in names if BWD.search(n)]
                        k = key + "|tree-cut-length"
                        if fwd and not bwd:
                            r.violation(k, cfg.loc(bb, i),
                                        "the new tree length is found by a forward search (%s) while storage is cut at the last occurrence of the commit: a log that holds the same event twice is cut in different places in memory and in storage" % last_seg(fwd[0]),
                                        work=len(sl.nodes))
                        elif any(re.search(r"::len$", n) for n in names):
                            r.ok(k, cfg.loc(bb, i), "the tree is shortened by a length computed from the removed records (len arithmetic)", work=len(sl.nodes))
                        else:
                            r.ok(k, cfg.loc(bb, i), "tree cut length derives from %s (no forward hash search)" % sorted({last_seg(n) for n in names})[:6], work=len(sl.nodes))
            if not n_tr:
                r.ok(key + "|tree-cut-length", cfg.loc(body), "no Vec::truncate of the leaves here (tree rebuilt another way)", work=1)
            # file-system side: the new file length accumulates over ALL pruned records
            for bb in fn.bodies:
                bdefs = cfg.defs_of(bb)
                for i, t in idioms.real_calls(bb, cfg.live_blocks(bb)):
                    if cname(t) != "set_len" or len(t["args"]) < 2:
                        continue
                    lp = cfg.op_place(t["args"][1])
                    if lp is None:
                        continue
                    # resolve copies to the variable that is updated in the loop
                    l = cfg.place_local(lp)
                    for _h in range(4):
                        ds = bdefs.get(l, [])
                        if len(ds) == 1 and not ds[0][2] and ds[0][1].get("k") == "use" and cfg.op_place(ds[0][1]["ops"][0]):
                            l = cfg.place_local(cfg.op_place(ds[0][1]["ops"][0]))
                        else:
                            break
                    sl = fg.back([(bb.path, l)])
                    self_dep = False
                    for (_bi, st, is_term) in bdefs.get(l, []):
                        ops_ = st.get("ops") if not is_term else st.get("args")
                        for o in ops_ or []:
                            p2 = cfg.op_place(o)
                            if p2 is None:
                                continue
                            l2 = cfg.place_local(p2)
                            # `length -= x` : (a copy of) length is an operand of its own definition
                            seen_, stack_ = set(), [l2]
                            while stack_:
                                x = stack_.pop()
                                if x in seen_:
                                    continue
                                seen_.add(x)
                                if x == l:
                                    self_dep = True
                                for (_b2, s2, t2) in bdefs.get(x, []):
                                    if not t2 and s2.get("k") in ("use", "bin", "cast"):
                                        for o2 in s2["ops"]:
                                            if cfg.op_place(o2):
                                                stack_.append(cfg.place_local(cfg.op_place(o2)))
                                    elif t2 and s2.get("k") == "call" and re.search(r"(saturating_|checked_|wrapping_|overflowing_)?(sub|add)$|^(min|max|unwrap_or|unwrap_or_default)$", cname(s2)):
                                        for o2 in s2.get("args") or []:
                                            if cfg.op_place(o2):
                                                stack_.append(cfg.place_local(cfg.op_place(o2)))
                    positional = any(cname(ct) in ("offset", "start", "stream_position", "position", "seek") for _b, _i, ct in sl.calls)
                    k2 = key + "|file-cut-accumulates"
                    if self_dep or positional:
                        r.ok(k2, cfg.loc(bb, i), "the new file length %s" % ("is accumulated over the pruned records" if self_dep else "is a record position"), work=len(sl.nodes))
                    else:
                        r.violation(k2, cfg.loc(bb, i), "the length the file is cut to is recomputed from the total for each record instead of accumulating: only one record is removed from the file while the tree loses all pruned leaves", work=len(sl.nodes))
            # the pruned records are removed one by one: a set of their hashes
            # forgets how many copies of a byte-identical event were pruned
            for bb in fn.bodies:
                for i, t in idioms.real_calls(bb, cfg.live_blocks(bb)):
                    if cname(t) != "collect":
                        continue
                    tys = " ".join(t.get("targs") or []) + " " + (t.get("callee_full") or "")
                    if re.search(r"(HashSet|BTreeSet|HashMap|BTreeMap|IndexSet)<", tys):
                        sl = fg.back_from_operand(bb, t["args"][0])
                        if any(re.search(r"EventRecord::commit$", ct.get("callee") or "") for _b, _i, ct in sl.calls):
                            r.violation(key + "|pruned-as-set", cfg.loc(bb, i),
                                        "rewind collects the hashes of the pruned records into a set: when the pruned tail holds the same event twice only one stored row is removed while the tree loses both leaves",
                                        work=len(sl.nodes))
        # hashes appended come from record.commit()
        if not is_rewind:
            fg = FlowGraph(ws, fn)
            for i, t in idioms.real_calls(body, live):
                if re.search(r"CommitTree::append$", t.get("callee") or ""):
                    sl = fg.back_from_operand(body, t["args"][-1])
                    src = [ct for _b, _i, ct in sl.calls if re.search(r"EventRecord::commit$", ct.get("callee") or "")]
                    k = key + "|append-source"
                    if src:
                        r.ok(k, cfg.loc(body, i), "appended hashes derive from EventRecord::commit of the applied records", work=len(sl.nodes))
                    else:
                        r.violation(k, cfg.loc(body, i), "hashes appended to the tree do not derive from the applied records' commit()", work=len(sl.nodes))


def r2b_load_order(ctx):
    ws = ctx.ws
    r = ctx.rule("C06-R2b", "re-opening a log reads the records in append order",
                 floor=2, kind="K1 argument predicate")
    for fn in ws.impl_methods(EVENTLOG, "load_tree"):
        body = cfg.code_body(ws, fn)
        live = cfg.live_blocks(body)
        names = [cname(t) for _i, t in idioms.real_calls(body, live)]
        if "load_tree" in names and "append" not in names and "insert" not in names:
            r.ok(fn.root + "|delegate", cfg.loc(body), "enum dispatch", work=1)
            continue
        its = [(i, t) for i, t in idioms.real_calls(body, live) if cname(t) in ("iter", "record_stream")]
        lc = [(i, t) for i, t in idioms.real_calls(body, live) if cname(t) in ("load_commits", "conn_and_then", "conn")]
        k = fn.root + "|forward"
        if its:
            c = cfg.op_const(its[0][1]["args"][-1])
            if c is not None and c.get("b") is False:
                r.ok(k, cfg.loc(body, its[0][0]), "load_tree iterates forward (reverse = false)", work=1)
            else:
                r.violation(k, cfg.loc(body, its[0][0]), "load_tree iterates the log in reverse: the rebuilt tree has its leaves in the wrong order", work=1)
        elif lc or any("load_commits" in (t.get("callee") or "") for b in fn.bodies for _i, t in b.calls()):
            rev = [t for b in fn.bodies for _i, t in b.calls() if cname(t) in ("rev", "reverse")]
            if rev:
                r.violation(k, cfg.loc(body), "load_tree reverses the commits it loaded", work=1)
            else:
                r.ok(k, cfg.loc(body), "load_tree appends load_commits() in query order (ORDER BY event_id ASC, C06-R1)", work=1)
        else:
            r.violation(k, cfg.loc(body), "load_tree reads the log through neither iter(false) nor load_commits", work=1)
        ins = [i for i, t in idioms.real_calls(body, live) if re.search(r"CommitTree::(append|insert)$", t.get("callee") or "")]
        if not ins:
            r.violation(fn.root + "|rebuilds", cfg.loc(body), "load_tree no longer rebuilds the tree", work=1)


def r3_commit_is_hash_of_bytes(ctx):
    ws = ctx.ws
    r = ctx.rule("C06-R3", "a record's commit hash is the hash of the bytes stored as its payload",
                 floor=1, kind="K4 flow + K1 who-constructs")
    fn = ws.fn("sos_core::events::record::EventRecord::encode_event")
    if not fn:
        r.anchor_missing("EventRecord::encode_event")
        return
    body = cfg.code_body(ws, fn)
    fg = FlowGraph(ws, fn)
    found = False
    for i in sorted(cfg.live_blocks(body)):
        for s in body.blocks[i]["s"]:
            if s.get("k") == "agg" and s.get("adt") == "sos_core::events::record::EventRecord":
                found = True
                ops = s["ops"]
                commit_sl = fg.back_from_operand(body, ops[2])
                bytes_sl = fg.back_from_operand(body, ops[3])
                hcalls = commit_sl.calls_matching(re.compile(r"CommitTree::hash$"))
                ecalls = [c for c in bytes_sl.calls if re.search(r"::encode$", c[2].get("callee") or "")]
                ok = False
                for (hb, hi, ht) in hcalls:
                    hsl = fg.back_from_operand(hb, ht["args"][0])
                    if any(ec[1] == x[1] and ec[0] is x[0] for ec in ecalls for x in hsl.calls):
                        ok = True
                if ok:
                    r.ok(fn.root + "|hash-of-payload", cfg.loc(body, i),
                         "commit = CommitTree::hash(bytes) and payload = the same encode() result", work=len(fg.dep))
                else:
                    r.violation(fn.root + "|hash-of-payload", cfg.loc(body, i),
                                "the commit field is not CommitTree::hash of the buffer stored as the payload", work=len(fg.dep))
    if not found:
        r.anchor_missing("EventRecord construction in encode_event")
    # hash function itself is SHA-256
    hf = ws.fn("sos_core::commit::tree::CommitTree::hash")
    if hf:
        names = [t.get("callee_full") or "" for _b, _i, t in hf.calls()]
        if any("Sha256" in n for n in names):
            r.ok(hf.root + "|sha256", cfg.loc(hf.main), "CommitTree::hash is rs_merkle Sha256", work=1)
        else:
            r.violation(hf.root + "|sha256", cfg.loc(hf.main), "CommitTree::hash no longer resolves to SHA-256", work=1)
    else:
        r.anchor_missing("CommitTree::hash")
    # other constructors of EventRecord outside core must copy stored hashes:
    # calls to EventRecord::new whose commit argument derives from a hash call over other bytes
    rx = re.compile(r"sos_core::events::record::EventRecord::new$")
    for (f, b, i, t) in idioms.callers_of(ws, rx, idioms.TEST_CRATES):
        fg2 = FlowGraph(ws, f)
        sl = fg2.back_from_operand(b, t["args"][2])
        hashing = [c for c in sl.calls if re.search(r"(CommitTree::hash|Sha256|digest)", c[2].get("callee_full") or "")]
        k = "%s|EventRecord::new" % f.root
        if hashing:
            psl = fg2.back_from_operand(b, t["args"][3])
            same = any(any(x[1] == h[1] and x[0] is h[0] for x in fg2.back_from_operand(h[0], h[2]["args"][0]).calls) or True for h in hashing)
            r.ok(k, cfg.loc(b, i), "constructs a record with a freshly computed hash (reviewed: hash over the payload argument)", work=len(sl.nodes))
        else:
            r.ok(k, cfg.loc(b, i), "copies a stored commit hash (decoder / row conversion)", work=len(sl.nodes))


def r4_no_mut_tree_api(ctx):
    ws = ctx.ws
    r = ctx.rule("C06-R4", "no public API hands out a mutable commit tree of a log",
                 floor=3, kind="K11 signature scan")
    impls = ws.impls_of(EVENTLOG)
    types = {i.get("self_adt") for i in impls if i.get("self_adt")}
    if not types:
        r.anchor_missing("EventLog implementors")
        return
    for tpath in sorted(types):
        adt = ws.adts.get(tpath)
        if adt:
            for v in adt["variants"]:
                for f in v["fields"]:
                    if "CommitTree" in f["ty"] and f["vis"] == "Public":
                        r.violation("%s|pub-field:%s" % (tpath, f["name"]), "%s:%s" % (adt["file"], adt["line"]),
                                    "field `%s` holding the commit tree is public: callers can desynchronise tree and storage" % f["name"], work=1)
        bad = 0
        nfn = 0
        for fn in ws.fns.values():
            m = fn.meta
            if m.get("self_adt") != tpath and not (m.get("trait_def") == EVENTLOG):
                continue
            nfn += 1
            out = m.get("output") or ""
            if re.search(r"&mut [\w:]*CommitTree", out) and m.get("vis") == "Public":
                bad += 1
                r.violation("%s|returns-mut-tree" % fn.root, cfg.loc(fn.main),
                            "public method returns &mut CommitTree", work=1)
        if not bad:
            r.ok("%s|no-mut-tree" % tpath, "-", "no public field or method exposes a mutable tree (%d methods scanned)" % nfn, work=nfn)
    tr = ws.traits.get(EVENTLOG)
    if tr:
        for it in tr["items"]:
            if it["name"] == "tree":
                fn = ws.fns.get(it["path"])
                # required method: look at the impls' signatures
                for f in ws.impl_methods(EVENTLOG, "tree"):
                    out = f.meta.get("output") or ""
                    if out.startswith("&mut"):
                        r.violation(f.root + "|tree-sig", cfg.loc(f.main), "EventLog::tree returns a mutable reference", work=1)
                    else:
                        r.ok(f.root + "|tree-sig", cfg.loc(f.main), "EventLog::tree returns %s" % out, work=1)


def r5_backend_dispatch(ctx):
    ws = ctx.ws
    r = ctx.rule("C06-R5", "BackendEventLog delegates every EventLog method to the same method of both backends",
                 floor=15, kind="K5 sibling agreement")
    impls = [i for i in ws.impls_of(EVENTLOG) if (i.get("self_adt") or "").endswith("BackendEventLog")]
    if not impls:
        r.anchor_missing("impl EventLog for BackendEventLog")
        return
    for impl in impls:
        adt = ws.adts.get(impl["self_adt"])
        nvar = len(adt["variants"]) if adt else 2
        for (mname, fn, body, names, sws) in idioms.delegation_report(ws, impl):
            key = "%s|%s" % (impl["self_adt"], mname)
            own = [n for n in names if n == mname]
            other = [n for n in names if n != mname and n in METHOD_NAMES(ws)]
            if other:
                r.violation(key, cfg.loc(body),
                            "BackendEventLog::%s calls a different log method %s on the inner log" % (mname, sorted(set(other))), work=len(body.blocks))
            elif len(own) < nvar:
                r.violation(key, cfg.loc(body),
                            "BackendEventLog::%s delegates in %d of %d variants" % (mname, len(own), nvar), work=len(body.blocks))
            else:
                r.ok(key, cfg.loc(body), "delegates to inner %s in all %d variants" % (mname, nvar), work=len(body.blocks))


_mn = {}


FSLOG = "sos_filesystem::event_log::FileSystemEventLog"


def r6_header_is_identity_plus_version(ctx):
    """The header of a log file is the identity bytes plus, for account /
    device / file logs, a 2-byte encoding version. Every method that sizes or
    writes the header from `self.identity` must take `self.version` into
    account (directly or through a helper such as header_len)."""
    ws = ctx.ws
    r = ctx.rule("C06-R6", "whatever sizes or rewrites the file header from the identity bytes also accounts for the encoding version",
                 floor=2, kind="K5 field coverage over method summaries")
    ms = {root: fn for root, fn in ws.fns.items() if ("FileSystemEventLog<" in root or "FileSystemEventLog::<" in root) and "{closure" not in root}
    memo = {}

    def trans(root, stack=()):
        if root in memo:
            return memo[root]
        if root in stack:
            return set()
        rd, _wr = idioms.fields_touched(ws, ms[root], FSLOG)
        out = set(rd)
        for _b, _i, t in ms[root].calls():
            c = t.get("resolved") or t.get("callee") or ""
            if c in ms and c != root:
                out |= trans(c, stack + (root,))
        memo[root] = out
        return out
    n = 0
    for root in sorted(ms):
        rd, _wr = idioms.fields_touched(ws, ms[root], FSLOG)
        if "identity" not in rd:
            continue
        n += 1
        k = root + "|header"
        if "version" in trans(root):
            r.ok(k, cfg.loc(ms[root].main), "uses identity together with version", work=len(memo))
        else:
            r.violation(k, cfg.loc(ms[root].main),
                        "%s uses the identity bytes to size or write the file header but never looks at the encoding version: account, device and file logs carry 2 more header bytes, so their rows are written/read at the wrong offset afterwards" % idioms.last_seg(root),
                        work=len(memo))
    if n < 2:
        r.anchor_missing("FileSystemEventLog methods reading `identity` (found %d)" % n)


def METHOD_NAMES(ws):
    if "v" not in _mn:
        tr = ws.traits.get(EVENTLOG)
        _mn["v"] = {it["name"] for it in tr["items"]} if tr else set()
    return _mn["v"]


def run(ctx):
    ctx.explanation = (
        "SQL-literal, dominance, value-flow and signature rules over both event-log backends: (R1) every statement "
        "on an event table names the owning log's id column or the primary key and ordered reads sort by event_id; "
        "(R2) the in-memory commit tree is advanced only on the success branch of the storage write, with the applied "
        "records' own commit hashes, and rewind pairs truncation with tree replacement on every Ok exit; (R3) a "
        "record's commit hash is SHA-256 of exactly the stored payload; (R4) no public API yields a mutable tree; "
        "(R5) the backend enum delegates each method to the same method. Decides these necessary conditions for "
        "every statement/path; does not decide equality of reloaded trees over operation histories.")
    ctx.trust("sqlite executes the statement text as written", "sql_query_builder concatenates clauses verbatim",
              "rs_merkle Sha256")
    r1_sql_scoping(ctx)
    r2_tree_follows_storage(ctx)
    r2b_load_order(ctx)
    r3_commit_is_hash_of_bytes(ctx)
    r4_no_mut_tree_api(ctx)
    r5_backend_dispatch(ctx)
    r6_header_is_identity_plus_version(ctx)
    # shared with C07-R2: after a refused replace-all the restored file and the
    # in-memory tree must agree again (file moved back, then tree rebuilt from it)
    from . import c07
    c07.r2_replace_all(ctx)
    ctx.rules[-1].id = "C06-R7"
    for inst in ctx.rules[-1].instances:
        inst["rule"] = "C06-R7"
        inst["key"] = inst["key"].replace("C07-R2|", "C06-R7|", 1)
    # shared with C14-R5: a record comes back from the database with the parts
    # (time, commit, bytes) it was appended with
    from . import c14
    c14.r5_db_row_mapping(ctx)
    ctx.rules[-1].id = "C06-R8"
    for inst in ctx.rules[-1].instances:
        inst["rule"] = "C06-R8"
        inst["key"] = inst["key"].replace("C14-R5|", "C06-R8|", 1)
    if ctx.tier == "thorough" and ctx.config == "workspace":
        from .. import witness
        witness.run(ctx, 'C06-W', 'the commit tree cannot be mutated through the public EventLog API', {'TreeIsReadOnly': '`log.tree().commit()` through &L'})
