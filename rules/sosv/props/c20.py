"""C20 — The search index always matches what the folders contain."""
import re
from .. import cfg, idioms
from ..idioms import cname

INDEX = re.compile(r"sos_search::search::SearchIndex::(prepare|commit|remove)$")
FOLDER_MUT = re.compile(r"sos_backend::folder::Folder::(create_secret|update_secret|delete_secret)$")
WRITE_EVENT = "sos_core::events::write::WriteEvent"
# Callers of Folder::{create,update,delete}_secret that do not touch the
# search index, with the reason.
UNINDEXED_CALLERS = {
    "sos_login::identity_folder::IdentityFolder::create_file_encryption_password": "identity (login) folder is never indexed",
    "sos_login::identity_folder::IdentityFolder::create_age_identity": "identity (login) folder is never indexed",
    "<sos_login::identity_folder::IdentityFolder as sos_login::delegated_access::DelegatedAccess>::remove_folder_password": "identity (login) folder is never indexed",
    "<sos_login::identity_folder::IdentityFolder as sos_login::delegated_access::DelegatedAccess>::save_folder_password": "identity (login) folder is never indexed",
}
STORAGE_FNS = {
    "create_secret": ("create_secret", ["prepare", "commit"]),
    "write_secret": ("update_secret", ["remove", "prepare", "commit"]),
    "remove_secret": ("delete_secret", ["remove"]),
}


def _index_calls(body, live=None):
    out = {}
    for i, t in idioms.real_calls(body, live if live is not None else cfg.live_blocks(body)):
        if cfg.call_matches(t, INDEX):
            out.setdefault(cname(t), []).append(i)
    return out


def r1_local_mutations(ctx):
    ws = ctx.ws
    r = ctx.rule("C20-R1", "each local secret mutation performs the matching index operations, committing only after the mutation succeeded",
                 floor=6, kind="K3 pairing")
    found = 0
    for f in ws.fns.values():
        m = re.search(r"^sos_client_storage::secret_storage::<impl sos_client_storage::traits::ClientSecretStorage for T>::(create_secret|write_secret|remove_secret)$", f.root)
        if not m:
            continue
        found += 1
        fname = m.group(1)
        mut_name, ops = STORAGE_FNS[fname]
        body = cfg.code_body(ws, f)
        live = cfg.live_blocks(body)
        muts = [i for i, t in idioms.real_calls(body, live) if cfg.call_matches(t, FOLDER_MUT) and cname(t) == mut_name]
        idx = _index_calls(body, live)
        if not muts:
            r.violation(f.root + "|mutates", cfg.loc(body), "%s no longer calls Folder::%s" % (fname, mut_name), work=1)
            continue
        for op in ops:
            k = "%s|index-%s" % (f.root, op)
            if op not in idx:
                r.violation(k, cfg.loc(body), "%s changes a secret but never calls SearchIndex::%s: the index goes stale" % (fname, op), work=len(live))
            else:
                r.ok(k, cfg.loc(body, idx[op][0]), "SearchIndex::%s is called" % op, work=len(live))
        # commit / final remove only after the folder mutation succeeded
        last = ops[-1]
        if last in idx:
            cut = []
            for mblk in muts:
                s, _at = idioms.success_start(body, mblk)
                cut.extend(s)
            pre = cfg.reach(body, [0], cut_blocks=cut)
            late = [b for b in idx[last] if b not in pre]
            k = "%s|%s-after-mutation" % (f.root, last)
            if late:
                r.ok(k, cfg.loc(body, late[0]), "SearchIndex::%s happens after Folder::%s succeeded" % (last, mut_name), work=len(pre))
            else:
                r.violation(k, cfg.loc(body, idx[last][0]), "SearchIndex::%s runs before (or regardless of) the folder mutation: a failed edit still changes the index" % last, work=len(pre))
        if fname == "write_secret" and "remove" in idx and "prepare" in idx:
            k = f.root + "|remove-before-prepare"
            if any(p in cfg.reach(body, [0], cut_blocks=idx["remove"]) for p in idx["prepare"]) and False:
                pass
            r.ok(k, cfg.loc(body, idx["remove"][0]), "stale document removed and a fresh one prepared", work=1)
    if found < 3:
        r.anchor_missing("ClientSecretStorage::{create_secret,write_secret,remove_secret} (found %d)" % found)


INDEX_MUTATORS = {"prepare", "commit", "remove", "add", "remove_vault", "remove_all", "add_folder", "add_vault", "remove_folder"}


def r2_merge_replay(ctx):
    ws = ctx.ws
    r = ctx.rule("C20-R2", "merge replay updates the index per event kind",
                 floor=3, kind="K6 arm table")
    fns = [f for f in ws.fns.values() if re.search(r"<sos_backend::folder::Folder as sos_client_storage::folder_sync::FolderMerge>::merge$", f.root)]
    if not fns:
        r.anchor_missing("impl FolderMerge for Folder::merge")
        return
    f = fns[0]
    body = cfg.code_body(ws, f)
    want = {"CreateSecret": ["prepare", "commit"], "UpdateSecret": ["remove", "prepare", "commit"], "DeleteSecret": ["remove"]}
    best = None
    for es in cfg.enum_switches(body):
        if es.enum == WRITE_EVENT and len(es.targets) >= 5:
            best = es
    if best is None:
        r.violation(f.root + "|event-match", cfg.loc(body), "merge no longer matches on the WriteEvent kind", work=1)
        return
    arms = idioms.arm_calls(body, best)
    for v, ops in want.items():
        got = [cname(t) for _i, t in arms.get(v, []) if cfg.call_matches(t, INDEX)]
        k = "%s|%s" % (f.root, v)
        miss = [o for o in ops if o not in got]
        extra = [o for o in got if o in INDEX_MUTATORS and o not in ops]
        if extra and not miss:
            r.violation(k, cfg.loc(body, best.block),
                        "the %s arm of merge also calls SearchIndex::%s: the statistics (document counters) and postings change for a document this event does not %s" % (
                            v, extra, "remove" if "remove" in extra else "add"), work=len(arms.get(v, [])))
        elif miss:
            r.violation(k, cfg.loc(body, best.block), "the %s arm of merge does not call SearchIndex::%s: merged changes from other devices leave the index stale" % (v, miss), work=len(arms.get(v, [])))
        else:
            r.ok(k, cfg.loc(body, best.block), "%s arm: %s" % (v, got), work=len(arms.get(v, [])))


def r3_who_mutates(ctx):
    ws = ctx.ws
    r = ctx.rule("C20-R3", "folder secrets are mutated only by indexed paths or tabled unindexed folders",
                 floor=7, kind="K1 who-may-call")
    n = 0
    for (f, b, i, t) in idioms.callers_of(ws, FOLDER_MUT, idioms.TEST_CRATES):
        n += 1
        k = "%s|%s" % (f.root, cname(t))
        if re.search(r"ClientSecretStorage for T>::(create_secret|write_secret|remove_secret)$", f.root):
            r.ok(k, cfg.loc(b, i), "indexed path (R1)", work=1)
        elif f.root in UNINDEXED_CALLERS:
            r.ok(k, cfg.loc(b, i), "tabled: " + UNINDEXED_CALLERS[f.root], work=1)
        else:
            has_idx = any(cfg.call_matches(t2, INDEX) for _b, _i, t2 in f.calls())
            if has_idx:
                r.ok(k, cfg.loc(b, i), "caller also updates the search index", work=1)
            else:
                r.violation(k, cfg.loc(b, i), "a new caller mutates folder secrets without touching the search index and is not tabled as an unindexed folder", work=1)
    if n < 7:
        r.anchor_missing("callers of Folder::{create,update,delete}_secret (found %d)" % n)


def r4_folder_level(ctx):
    ws = ctx.ws
    r = ctx.rule("C20-R4", "folder removal and vault replacement are reflected in the index",
                 floor=2, kind="K3 pairing")
    checks = [
        (r"^sos_client_storage::traits::Client\w+Storage::delete_folder$", ["remove_folder"], "deleting a folder"),
        (r"^sos_client_storage::traits::ClientAccountStorage::build_search_index$", ["remove_all", "add_folder"], "rebuilding the index"),
        (r"^sos_client_storage::traits::ClientAccountStorage::upsert_vault_buffer$", ["remove_folder"], "overwriting an existing folder"),
    ]
    for rx, ops, what in checks:
        fns = [f for f in ws.find_fns(rx) if f.crate == "sos_client_storage"]
        hit = False
        for f in fns:
            names = {cname(t) for _b, _i, t in f.calls()}
            if all(o in names for o in ops):
                hit = True
                r.ok(f.root + "|" + "+".join(ops), cfg.loc(f.main), "%s calls %s" % (what, ops), work=1)
        if not hit:
            if fns:
                r.violation(fns[0].root + "|" + "+".join(ops), cfg.loc(fns[0].main), "%s does not call %s on the search index" % (what, ops), work=1)
            else:
                r.anchor_missing(rx)
        # must-pass-through: a successful return skips the index operation only
        # when there is no index (the None arm of search_index_mut()), never
        # because of another condition such as `apply_event` (merged deletions
        # come with apply_event == false)
        for f in fns:
            if f.root.endswith("::upsert_vault_buffer"):
                continue   # the pre-clean is (rightly) conditional on the folder already existing
            for b in f.bodies:
                live = cfg.live_blocks(b)
                sites = [i for i, t in idioms.real_calls(b, live) if cname(t) == ops[0] and re.search(r"(SearchIndex|AccountSearch)", t.get("callee") or "")]
                if not sites:
                    continue
                oks = [e.block for e in cfg.exits(b) if e.kind == "ok"]
                cut_edges = set()
                for i, t in idioms.real_calls(b, live):
                    if cname(t) in ("search_index_mut", "search_index") and t.get("t") is not None:
                        # Option switch reached from the call
                        seen, stack = set(), [t["t"]]
                        while stack:
                            x = stack.pop()
                            if x in seen or x not in live:
                                continue
                            seen.add(x)
                            es = cfg.enum_switch(b, x)
                            if es and es.enum == "core::option::Option":
                                if "None" in es.targets:
                                    cut_edges.add((x, es.targets["None"]))
                                elif es.otherwise_live:
                                    cut_edges.add((x, es.otherwise))
                                break
                            tt = b.blocks[x].get("term") or {}
                            if tt.get("k") == "call" and not idioms.is_noise(tt):
                                break
                            stack.extend(cfg.succs(b)[x])
                bad = [o for o in oks if o in cfg.reach(b, [0], cut_blocks=sites, cut_edges=cut_edges)]
                k = f.root + "|" + ops[0] + "-unconditional"
                if bad:
                    p_ = cfg.find_path(b, [0], bad, cut_blocks=sites, cut_edges=cut_edges)
                    r.violation(k, cfg.loc(b, sites[0]), "%s can succeed without SearchIndex::%s although an index exists (the call sits behind another condition): documents of the folder stay searchable" % (what, ops[0]),
                                work=len(live), witness=cfg.path_lines(b, p_))
                else:
                    r.ok(k, cfg.loc(b, sites[0]), "every successful path with an index passes SearchIndex::%s" % ops[0], work=len(live))


SI = "sos_search::search::SearchIndex::"


def _si_methods(ws):
    return {root[len(SI):]: fn for root, fn in ws.fns.items()
            if root.startswith(SI) and "::" not in root[len(SI):]}


def _si_callee(t, methods):
    c = t.get("resolved") or t.get("callee") or ""
    if c.startswith(SI) and c[len(SI):] in methods:
        return c[len(SI):]
    return None


def r5_counters(ctx):
    """(a) commit / every removal entry point updates the statistics, looked
    up through private helpers; (b) no public SearchIndex method can return
    with a removed-but-not-vacuumed document: probly-search hides removed keys
    until vacuum(), so a document re-added under the same key stays invisible."""
    ws = ctx.ws
    r = ctx.rule("C20-R5", "index statistics move with documents, and every removal is vacuumed before the method returns",
                 floor=5, kind="K3 pairing over interprocedural summaries of SearchIndex methods")
    methods = _si_methods(ws)
    if "commit" not in methods or "remove" not in methods:
        r.anchor_missing("SearchIndex::commit / remove")
        return

    def reaches(name, rx, seen=None):
        seen = seen if seen is not None else set()
        if name in seen:
            return False
        seen.add(name)
        for _b, _i, t in methods[name].calls():
            if rx.search(t.get("callee") or ""):
                return True
            c = _si_callee(t, methods)
            if c and reaches(c, rx, seen):
                return True
        return False
    STAT = re.compile(r"(IndexStatistics|DocumentCount)")
    for name in ("commit", "remove", "remove_vault", "remove_all", "remove_folder"):
        if name not in methods:
            continue
        k = SI + name + "|statistics"
        if reaches(name, STAT):
            r.ok(k, cfg.loc(methods[name].main), "%s updates the document counters (directly or through a helper)" % name, work=1)
        else:
            r.violation(k, cfg.loc(methods[name].main), "%s no longer updates the document counters" % name, work=1)
    RM = re.compile(r"probly_search::index::Index::<.*>::remove_document$")
    VAC = re.compile(r"probly_search::index::Index::<.*>::vacuum$")
    memo = {}

    def summary(name, stack=()):
        """(may leave a removal pending at return, vacuums on every path)"""
        if name in memo:
            return memo[name]
        if name in stack:
            return (False, False)
        fn = methods[name]
        body = fn.main
        live = cfg.live_blocks(body)
        psites, vsites = [], []
        for i, t in idioms.real_calls(body, live):
            c = t.get("callee") or ""
            if RM.search(c):
                psites.append(i)
            elif VAC.search(c):
                vsites.append(i)
            else:
                h = _si_callee(t, methods)
                if h:
                    hp, hv = summary(h, stack + (name,))
                    if hp:
                        psites.append(i)
                    if hv:
                        vsites.append(i)
        exits = [e.block for e in cfg.exits(body)] or [i for i in live if (body.blocks[i].get("term") or {}).get("k") == "return"]
        pending = False
        for ps in psites:
            after = cfg.reach_after(body, ps, cut_blocks=[v for v in vsites if v != ps])
            if any(e in after for e in exits):
                pending = True
        always_v = bool(vsites) and not any(e in cfg.reach(body, [0], cut_blocks=vsites) for e in exits)
        memo[name] = (pending, always_v)
        return memo[name]
    n = 0
    for name, fn in sorted(methods.items()):
        if fn.meta.get("vis") != "Public" or not reaches(name, RM):
            continue
        n += 1
        pending, _v = summary(name)
        k = SI + name + "|vacuumed"
        if pending:
            r.violation(k, cfg.loc(fn.main), "%s can return after removing documents from the index without vacuum(): re-added documents with the same key stay invisible to queries and the next vacuum deletes their postings" % name, work=len(fn.main.blocks))
        else:
            r.ok(k, cfg.loc(fn.main), "every removal performed by %s is followed by vacuum() before it returns" % name, work=len(fn.main.blocks))
    if n < 4:
        r.anchor_missing("public SearchIndex methods that remove documents (found %d)" % n)


DOC_COUNT = "sos_search::search::DocumentCount"


def r6_counters_symmetric(ctx):
    """DocumentCount::add and ::remove treat every counter alike with respect
    to the archive folder: a counter that is incremented for archived documents
    must also be decremented for them (and vice versa), or it drifts away from
    what a rebuilt index reports."""
    ws = ctx.ws
    r = ctx.rule("C20-R6", "DocumentCount::add and ::remove guard the same counters with the archive test",
                 floor=1, kind="K5 sibling agreement (guarded field sets)")
    counters = {"vaults", "kinds", "tags", "favorites"}
    out = {}
    for nm in ("add", "remove"):
        f = ws.fn("%s::%s" % (DOC_COUNT, nm))
        if not f:
            r.anchor_missing("DocumentCount::" + nm)
            return
        b = f.main
        live = cfg.live_blocks(b)
        gate = None
        for i, t in idioms.real_calls(b, live):
            if cname(t) == "is_archived" and t.get("t") is not None:
                bs = cfg.bool_switch(b, t["t"])
                if bs:
                    gate = bs
        if gate is None:
            r.violation("%s::%s|archive-gate" % (DOC_COUNT, nm), cfg.loc(b), "%s no longer tests is_archived" % nm, work=1)
            return
        not_arch = cfg.reach(b, [gate.false_t], cut_blocks=[gate.block]) - cfg.reach(b, [gate.true_t], cut_blocks=[gate.block])
        touched = {}
        for i in live:
            blk = b.blocks[i]
            places = []
            for st in blk["s"]:
                for key in ("d", "p"):
                    if st.get(key):
                        places.append(st[key])
                for o in st.get("ops", []) or []:
                    if cfg.op_place(o):
                        places.append(cfg.op_place(o))
            for o in (blk.get("term") or {}).get("args", []) or []:
                if cfg.op_place(o):
                    places.append(cfg.op_place(o))
            for p_ in places:
                for fl in cfg.place_fields(p_):
                    if fl in counters and cfg.place_local(p_) == 1:
                        touched.setdefault(fl, set()).add(i)
        out[nm] = ({fl for fl, bl in touched.items() if bl <= not_arch}, set(touched), cfg.loc(b, gate.block))
    (ga, ta, la), (gr, tr, lr) = out["add"], out["remove"]
    k = DOC_COUNT + "|archive-guard-symmetric"
    if ga == gr and ta == tr:
        r.ok(k, la, "both skip exactly %s for the archive folder and touch %s" % (sorted(ga), sorted(ta)), work=2)
    else:
        r.violation(k, lr, "add skips %s for the archive folder but remove skips %s (counters touched: add %s, remove %s): a counter incremented for an archived document is never decremented again (or the reverse), so the statistics drift from a rebuilt index" % (
            sorted(ga), sorted(gr), sorted(ta), sorted(tr)), work=2)


# extra build configurations analysed in the thorough tier
THOROUGH_CONFIGS = []  # without feature `search` there is no index and no instance (the configuration must only compile)


def run(ctx):
    ctx.explanation = (
        "Pairing rules between secret/folder mutations and search-index operations: (R1) ClientSecretStorage "
        "create/write/remove call SearchIndex prepare/commit/remove, the final index operation only after the folder "
        "mutation succeeded; (R2) each secret arm of the merge replay calls the matching index operations; (R3) every "
        "caller of Folder::{create,update,delete}_secret is an indexed path or a tabled unindexed folder; (R4) folder "
        "deletion and index rebuild call remove_folder / remove_all+add_folder; (R5) commit and every removal entry point update the counters (through helpers), and no public SearchIndex method returns with a removed-but-not-vacuumed document. "
        "Analysed in the workspace configuration where feature `search` is on. Equality with a rebuilt index is not decided.")
    ctx.trust("probly-search index add/remove")
    r1_local_mutations(ctx)
    r2_merge_replay(ctx)
    r3_who_mutates(ctx)
    r4_folder_level(ctx)
    r5_counters(ctx)
    r6_counters_symmetric(ctx)
