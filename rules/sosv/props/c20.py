"""C20 — The search index always matches what the folders contain."""
import re
from .. import cfg, idioms
from ..idioms import cname

INDEX = re.compile(r"sos_search::search::SearchIndex::(prepare|commit|remove)$")
FOLDER_MUT = re.compile(r"sos_backend::folder::Folder::(create_secret|update_secret|delete_secret)$")
WRITE_EVENT = "sos_core::events::write::WriteEvent"
# Callers of Folder::{create,update,delete}_secret that do not touch the
# search index, with the reason.
UNINDEXED_CALLERS = {
    "sos_login::identity_folder::IdentityFolder::create_file_encryption_password": "identity (login) folder is never indexed",
    "sos_login::identity_folder::IdentityFolder::create_age_identity": "identity (login) folder is never indexed",
    "<sos_login::identity_folder::IdentityFolder as sos_login::delegated_access::DelegatedAccess>::remove_folder_password": "identity (login) folder is never indexed",
    "<sos_login::identity_folder::IdentityFolder as sos_login::delegated_access::DelegatedAccess>::save_folder_password": "identity (login) folder is never indexed",
}
STORAGE_FNS = {
    "create_secret": ("create_secret", ["prepare", "commit"]),
    "write_secret": ("update_secret", ["remove", "prepare", "commit"]),
    "remove_secret": ("delete_secret", ["remove"]),
}


def _index_calls(body, live=None):
    out = {}
    for i, t in idioms.real_calls(body, live if live is not None else cfg.live_blocks(body)):
        if cfg.call_matches(t, INDEX):
            out.setdefault(cname(t), []).append(i)
    return out


def r1_local_mutations(ctx):
    ws = ctx.ws
    r = ctx.rule("C20-R1", "each local secret mutation performs the matching index operations, committing only after the mutation succeeded",
                 floor=6, kind="K3 pairing")
    found = 0
    for f in ws.fns.values():
        m = re.search(r"^sos_client_storage::secret_storage::<impl sos_client_storage::traits::ClientSecretStorage for T>::(create_secret|write_secret|remove_secret)$", f.root)
        if not m:
            continue
        found += 1
        fname = m.group(1)
        mut_name, ops = STORAGE_FNS[fname]
        body = cfg.code_body(ws, f)
        live = cfg.live_blocks(body)
        muts = [i for i, t in idioms.real_calls(body, live) if cfg.call_matches(t, FOLDER_MUT) and cname(t) == mut_name]
        idx = _index_calls(body, live)
        if not muts:
            r.violation(f.root + "|mutates", cfg.loc(body), "%s no longer calls Folder::%s" % (fname, mut_name), work=1)
            continue
        for op in ops:
            k = "%s|index-%s" % (f.root, op)
            if op not in idx:
                r.violation(k, cfg.loc(body), "%s changes a secret but never calls SearchIndex::%s: the index goes stale" % (fname, op), work=len(live))
            else:
                r.ok(k, cfg.loc(body, idx[op][0]), "SearchIndex::%s is called" % op, work=len(live))
        # commit / final remove only after the folder mutation succeeded
        last = ops[-1]
        if last in idx:
            cut = []
            for mblk in muts:
                s, _at = idioms.success_start(body, mblk)
                cut.extend(s)
            pre = cfg.reach(body, [0], cut_blocks=cut)
            late = [b for b in idx[last] if b not in pre]
            k = "%s|%s-after-mutation" % (f.root, last)
            if late:
                r.ok(k, cfg.loc(body, late[0]), "SearchIndex::%s happens after Folder::%s succeeded" % (last, mut_name), work=len(pre))
            else:
                r.violation(k, cfg.loc(body, idx[last][0]), "SearchIndex::%s runs before (or regardless of) the folder mutation: a failed edit still changes the index" % last, work=len(pre))
        if fname == "write_secret" and "remove" in idx and "prepare" in idx:
            k = f.root + "|remove-before-prepare"
            if any(p in cfg.reach(body, [0], cut_blocks=idx["remove"]) for p in idx["prepare"]) and False:
                pass
            r.ok(k, cfg.loc(body, idx["remove"][0]), "stale document removed and a fresh one prepared", work=1)
    if found < 3:
        r.anchor_missing("ClientSecretStorage::{create_secret,write_secret,remove_secret} (found %d)" % found)


INDEX_MUTATORS = {"prepare", "commit", "remove", "add", "remove_vault", "remove_all", "add_folder", "add_vault", "remove_folder"}


def r2_merge_replay(ctx):
    ws = ctx.ws
    r = ctx.rule("C20-R2", "merge replay updates the index per event kind",
                 floor=3, kind="K6 arm table")
    fns = [f for f in ws.fns.values() if re.search(r"<sos_backend::folder::Folder as sos_client_storage::folder_sync::FolderMerge>::merge$", f.root)]
    if not fns:
        r.anchor_missing("impl FolderMerge for Folder::merge")
        return
    f = fns[0]
    body = cfg.code_body(ws, f)
    want = {"CreateSecret": ["prepare", "commit"], "UpdateSecret": ["remove", "prepare", "commit"], "DeleteSecret": ["remove"]}
    best = None
    for es in cfg.enum_switches(body):
        if es.enum == WRITE_EVENT and len(es.targets) >= 5:
            best = es
    if best is None:
        r.violation(f.root + "|event-match", cfg.loc(body), "merge no longer matches on the WriteEvent kind", work=1)
        return
    arms = idioms.arm_calls(body, best)
    for v, ops in want.items():
        got = [cname(t) for _i, t in arms.get(v, []) if cfg.call_matches(t, INDEX)]
        k = "%s|%s" % (f.root, v)
        miss = [o for o in ops if o not in got]
        extra = [o for o in got if o in INDEX_MUTATORS and o not in ops]
        if extra and not miss:
            r.violation(k, cfg.loc(body, best.block),
                        "the %s arm of merge also calls SearchIndex::%s: the statistics (document counters) and postings change for a document this event does not %s" % (
                            v, extra, "remove" if "remove" in extra else "add"), work=len(arms.get(v, [])))
        elif miss:
            r.violation(k, cfg.loc(body, best.block), "the %s arm of merge does not call SearchIndex::%s: merged changes from other devices leave the index stale" % (v, miss), work=len(arms.get(v, [])))
        else:
            r.ok(k, cfg.loc(body, best.block), "%s arm: %s" % (v, got), work=len(arms.get(v, [])))


def r3_who_mutates(ctx):
    ws = ctx.ws
    r = ctx.rule("C20-R3", "folder secrets are mutated only by indexed paths or tabled unindexed folders",
                 floor=7, kind="K1 who-may-call")
    n = 0
    for (f, b, i, t) in idioms.callers_of(ws, FOLDER_MUT, idioms.TEST_CRATES):
        n += 1
        k = "%s|%s" % (f.root, cname(t))
        if re.search(r"ClientSecretStorage for T>::(create_secret|write_secret|remove_secret)$", f.root):
            r.ok(k, cfg.loc(b, i), "indexed path (R1)", work=1)
        elif f.root in UNINDEXED_CALLERS:
            r.ok(k, cfg.loc(b, i), "tabled: " + UNINDEXED_CALLERS[f.root], work=1)
        else:
            has_idx = any(cfg.call_matches(t2, INDEX) for _b, _i, t2 in f.calls())
            if has_idx:
                r.ok(k, cfg.loc(b, i), "caller also updates the search index", work=1)
            else:
                r.violation(k, cfg.loc(b, i), "a new caller mutates folder secrets without touching the search index and is not tabled as an unindexed folder", work=1)
    if n < 7:
        r.anchor_missing("callers of Folder::{create,update,delete}_secret (found %d)" % n)


def r4_folder_level(ctx):
    ws = ctx.ws
    r = ctx.rule("C20-R4", "folder removal and vault replacement are reflected in the index",
                 floor=2, kind="K3 pairing")
    checks = [
        (r"^sos_client_storage::traits::Client\w+Storage::delete_folder$", ["remove_folder"], "deleting a folder"),
        (r"^sos_client_storage::traits::ClientAccountStorage::build_search_index$", ["remove_all", "add_folder"], "rebuilding the index"),
    ]
    for rx, ops, what in checks:
        fns = [f for f in ws.find_fns(rx) if f.crate == "sos_client_storage"]
        hit = False
        for f in fns:
            names = {cname(t) for _b, _i, t in f.calls()}
            if all(o in names for o in ops):
                hit = True
                r.ok(f.root + "|" + "+".join(ops), cfg.loc(f.main), "%s calls %s" % (what, ops), work=1)
        if not hit:
            if fns:
                r.violation(fns[0].root + "|" + "+".join(ops), cfg.loc(fns[0].main), "%s does not call %s on the search index" % (what, ops), work=1)
            else:
                r.anchor_missing(rx)


def r5_counters(ctx):
    ws = ctx.ws
    r = ctx.rule("C20-R5", "index statistics move with documents",
                 floor=2, kind="K3 pairing")
    c = ws.fn("sos_search::search::SearchIndex::commit")
    rm = ws.fn("sos_search::search::SearchIndex::remove")
    if not c or not rm:
        r.anchor_missing("SearchIndex::commit / remove")
        return
    for f, need in ((c, ["add", "insert"]), (rm, ["remove"])):
        names = [cname(t) for _b, _i, t in f.calls()]
        k = f.root + "|statistics"
        stat = [t for _b, _i, t in f.calls() if re.search(r"(IndexStatistics|DocumentCount)", t.get("callee") or "")]
        if stat:
            r.ok(k, cfg.loc(f.main), "updates the statistics via %s" % sorted({cname(t) for t in stat}), work=len(names))
        else:
            r.violation(k, cfg.loc(f.main), "%s no longer updates the document counters" % idioms.last_seg(f.root), work=len(names))


# extra build configurations analysed in the thorough tier
THOROUGH_CONFIGS = []  # without feature `search` there is no index and no instance (the configuration must only compile)


def run(ctx):
    ctx.explanation = (
        "Pairing rules between secret/folder mutations and search-index operations: (R1) ClientSecretStorage "
        "create/write/remove call SearchIndex prepare/commit/remove, the final index operation only after the folder "
        "mutation succeeded; (R2) each secret arm of the merge replay calls the matching index operations; (R3) every "
        "caller of Folder::{create,update,delete}_secret is an indexed path or a tabled unindexed folder; (R4) folder "
        "deletion and index rebuild call remove_folder / remove_all+add_folder; (R5) commit/remove update the counters. "
        "Analysed in the workspace configuration where feature `search` is on. Equality with a rebuilt index is not decided.")
    ctx.trust("probly-search index add/remove")
    r1_local_mutations(ctx)
    r2_merge_replay(ctx)
    r3_who_mutates(ctx)
    r4_folder_level(ctx)
    r5_counters(ctx)
