"""C17 — External file blobs are content-addressed and follow their secret."""
import re
from .. import cfg, idioms
from ..flow import FlowGraph
from ..idioms import cname

FILE_MUTATORS = {"create_files", "update_files", "delete_files", "move_files", "delete_folder_files"}
FILE_MANAGER = re.compile(r"files::file_manager::ExternalFileManager::(create_files|update_files|delete_files|move_files|delete_folder_files)$")


def _call_blocks(body, name):
    return [i for i, t in idioms.real_calls(body) if cname(t) == name]


def r1_client_naming(ctx):
    ws = ctx.ws
    r = ctx.rule("C17-R1", "client: the blob name is the SHA-256 of exactly the bytes written",
                 floor=3, kind="K4 value flow")
    fns = ws.find_fns(r"files::external_files::FileStorage::encrypt_file_passphrase$")
    if not fns:
        r.anchor_missing("FileStorage::encrypt_file_passphrase")
        return
    f = fns[0]
    body = cfg.code_body(ws, f)
    fg = FlowGraph(ws, f)
    ups = [(i, t) for i, t in idioms.real_calls(body) if cname(t) == "update"]
    wrs = [(i, t) for i, t in idioms.real_calls(body) if cname(t) == "write_exclusive"]
    if not ups or not wrs:
        r.violation(f.root + "|hash-and-write", cfg.loc(body), "expected one hasher.update and one write_exclusive", work=1)
        return

    def buffer_roots(sl):
        out = set()
        for (b, i, t) in sl.calls:
            if re.search(r"wrap_async_output|wrap_output", t.get("callee") or ""):
                out.add(("enc", b.path, i))
        return out
    hs = fg.back_from_operand(body, ups[0][1]["args"][-1])
    wsx = fg.back_from_operand(body, wrs[0][1]["args"][-1])
    k = f.root + "|hashed-bytes-are-written-bytes"
    if buffer_roots(hs) and buffer_roots(hs) == buffer_roots(wsx):
        r.ok(k, cfg.loc(body, ups[0][0]), "hasher.update and write_exclusive receive the same encrypted buffer", work=len(hs.nodes) + len(wsx.nodes))
    else:
        r.violation(k, cfg.loc(body, ups[0][0]), "the bytes hashed for the name are not the bytes written to the blob store", work=len(hs.nodes) + len(wsx.nodes))
    ds = fg.back_from_operand(body, wrs[0][1]["args"][0])
    k = f.root + "|name-from-digest"
    if any(cname(t) == "finalize" for _b, _i, t in ds.calls):
        r.ok(k, cfg.loc(body, wrs[0][0]), "destination file name derives from the digest", work=len(ds.nodes))
    else:
        r.violation(k, cfg.loc(body, wrs[0][0]), "the destination file name does not derive from the SHA-256 digest", work=len(ds.nodes))
    rs = fg.back([(body.path, 0)])
    k = f.root + "|returns-digest"
    if any(cname(t) == "finalize" for _b, _i, t in rs.calls):
        r.ok(k, cfg.loc(body), "the returned checksum is that digest", work=len(rs.nodes))
    else:
        r.violation(k, cfg.loc(body), "the returned checksum is not the digest of the written bytes", work=len(rs.nodes))
    sha = any("Sha256" in (t.get("callee_full") or "") for _b, _i, t in f.calls())
    if sha:
        r.ok(f.root + "|sha256", cfg.loc(body), "hasher is SHA-256", work=1)
    else:
        r.violation(f.root + "|sha256", cfg.loc(body), "hasher is not SHA-256", work=1)


def r2_server_acceptance(ctx):
    ws = ctx.ws
    r = ctx.rule("C17-R2", "server: an upload is written to a temporary name, hashed as written, and renamed into place only when the digest equals the requested name",
                 floor=4, kind="K2 + K4")
    fns = ws.find_fns(r"^sos_server::handlers::files::handlers::receive_file$")
    if not fns:
        r.anchor_missing("handlers::files::handlers::receive_file")
        return
    f = fns[0]
    body = cfg.code_body(ws, f)
    fg = FlowGraph(ws, f)
    live = cfg.live_blocks(body)
    ren = _call_blocks(body, "rename")
    cre = _call_blocks(body, "create")
    if not ren or not cre:
        r.violation(f.root + "|create-and-rename", cfg.loc(body), "expected File::create of a temporary file and a rename into place", work=1)
        return
    # gate
    gate = None
    for i in live:
        bs = cfg.bool_switch(body, i)
        if bs and bs.def_is_term and cname(bs.defn) in ("ne", "eq"):
            sl = fg.back([(body.path, bs.local)])
            if any(cname(t) == "finalize" for _b, _i, t in sl.calls) and sl.has_var(body, "file_name"):
                gate = bs
    k = f.root + "|rename-needs-digest-match"
    if gate is None:
        r.violation(k, cfg.loc(body), "no comparison between the upload's digest and the requested file name", work=len(live))
    else:
        neq = cname(gate.defn) == "ne"
        mism = gate.true_t if neq else gate.false_t
        match = gate.false_t if neq else gate.true_t
        bad = [x for x in ren if x in cfg.reach(body, [mism], cut_blocks=[gate.block])]
        byp = [x for x in ren if x in cfg.reach(body, [0], cut_edges={(gate.block, match)})]
        if bad or byp:
            r.violation(k, cfg.loc(body, ren[0]), "the upload can be renamed into place although its digest does not equal the requested name", work=len(live))
        else:
            r.ok(k, cfg.loc(body, ren[0]), "rename only on the digest == name edge", work=len(live))
    # temp name
    t = body.blocks[cre[0]]["term"]
    sl = fg.back_from_operand(body, t["args"][0])
    k = f.root + "|writes-temp-name"
    if any(cname(ct) == "set_extension" for _b, _i, ct in sl.calls):
        r.ok(k, cfg.loc(body, cre[0]), "File::create is applied to the .upload path", work=len(sl.nodes))
    else:
        r.violation(k, cfg.loc(body, cre[0]), "the upload is created directly under its final name: a partially received file is exposed", work=len(sl.nodes))
    # same chunk hashed and written
    ups = [(i, t2) for i, t2 in idioms.real_calls(body) if cname(t2) == "update"]
    wrs = [(i, t2) for i, t2 in idioms.real_calls(body) if cname(t2) == "write_all"]
    k = f.root + "|hash-what-is-written"
    if ups and wrs:
        a = fg.back_from_operand(body, ups[0][1]["args"][-1])
        b = fg.back_from_operand(body, wrs[0][1]["args"][-1])
        ca = {(x.path, i) for x, i, t2 in a.calls if cname(t2) == "try_next"}
        cb = {(x.path, i) for x, i, t2 in b.calls if cname(t2) == "try_next"}
        if ca and ca == cb:
            r.ok(k, cfg.loc(body, ups[0][0]), "each chunk is written and hashed", work=len(a.nodes) + len(b.nodes))
        else:
            r.violation(k, cfg.loc(body, ups[0][0]), "the hasher is not fed the chunk that is written", work=len(a.nodes) + len(b.nodes))
    else:
        r.violation(k, cfg.loc(body), "upload loop does not both hash and write", work=1)
    # cleanup guard exists before the file is created
    guards = [j for j in sorted(live) for s in body.blocks[j]["s"] if s.get("k") == "agg" and (s.get("adt") or "").endswith("ReceiveGuard")]
    k = f.root + "|cleanup-guard"
    if guards and cre[0] not in cfg.reach(body, [0], cut_blocks=guards):
        r.ok(k, cfg.loc(body, guards[0]), "the temp-file cleanup guard is alive before the file is created", work=len(live))
    else:
        r.violation(k, cfg.loc(body), "no cleanup guard protects the temporary upload: failed uploads leave files behind", work=len(live))


def r3_mutations_logged(ctx):
    ws = ctx.ws
    r = ctx.rule("C17-R3", "every file mutation performed for a secret is appended to the file event log",
                 floor=5, kind="K3 pairing")
    n = 0
    for f in ws.fns.values():
        if f.crate in idioms.TEST_CRATES:
            continue
        if FILE_MANAGER.search(f.root):
            continue  # the manager's own methods return their events
        for b in f.bodies:
            live = cfg.live_blocks(b)
            sites = [(i, t) for i, t in idioms.real_calls(b, live) if cfg.call_matches(t, FILE_MANAGER)]
            if not sites:
                continue
            logs = [i for i, t in idioms.real_calls(b, live) if cname(t) == "append_file_mutation_events"
                    or (cname(t) == "apply" and "FileEvent" in ((t.get("callee_full") or "") + (t.get("resolved_full") or "") + " ".join(t.get("targs") or [])))]
            oks = [e.block for e in cfg.exits(b) if e.kind in ("ok", "other", "value", "call")]
            for (i, t) in sites:
                n += 1
                k = "%s|%s-logged" % (f.root, cname(t))
                start, _at = idioms.success_start(b, i)
                if not logs:
                    r.violation(k, cfg.loc(b, i), "%s is called but its events are never appended to the file log" % cname(t), work=len(live))
                    continue
                bad = [o for o in oks if o in cfg.reach(b, start, cut_blocks=logs)]
                if bad:
                    p = cfg.find_path(b, start, bad, cut_blocks=logs)
                    r.violation(k, cfg.loc(b, i), "after %s a successful return is reachable without appending its file events" % cname(t), work=len(live), witness=cfg.path_lines(b, p))
                else:
                    r.ok(k, cfg.loc(b, i), "every successful path after %s appends to the file log" % cname(t), work=len(live))
    if n == 0:
        r.anchor_missing("external callers of the file manager's mutators")
    # append_file_mutation_events maps every variant
    fns = ws.find_fns(r"ExternalFileManager::append_file_mutation_events$")
    if fns:
        body = cfg.code_body(ws, fns[0])
        adt = [a for a in ws.adts if a.endswith("::FileMutationEvent")]
        variants = [v["name"] for v in ws.adts[adt[0]]["variants"]] if adt else []
        for es in cfg.enum_switches(body):
            if es.enum and es.enum.endswith("FileMutationEvent"):
                miss = [v for v in variants if v not in es.targets]
                k = fns[0].root + "|maps-all-variants"
                if miss and es.otherwise_live:
                    r.violation(k, cfg.loc(body, es.block), "FileMutationEvent variants %s fall into a wildcard arm" % miss, work=1)
                else:
                    pushes = len([1 for i, t in idioms.real_calls(body) if cname(t) == "push"])
                    if pushes >= len(variants):
                        r.ok(k, cfg.loc(body, es.block), "each of %s pushes its FileEvent" % variants, work=1)
                    else:
                        r.violation(k, cfg.loc(body, es.block), "only %d of %d FileMutationEvent variants push an event" % (pushes, len(variants)), work=1)


def r4_reducer_and_compare(ctx):
    ws = ctx.ws
    r = ctx.rule("C17-R4", "the file reducer handles create, move and delete; the server copies before deleting on move",
                 floor=2, kind="K6 + K2")
    red = [f for f in ws.fns.values() if re.search(r"sos_reducers::files::FileReducer(::<.*>)?::(reduce|add_file_event)$", f.root)]
    if red:
        variants = [v["name"] for v in ws.adts.get("sos_core::events::file::FileEvent", {"variants": []})["variants"]]
        handled = set()
        wild = False
        for b in [b for f in red for b in f.bodies]:
            for es in cfg.enum_switches(b):
                if es.enum == "sos_core::events::file::FileEvent":
                    handled |= set(es.targets)
                    wild = wild or es.otherwise_live
        # each arm performs its set operations unconditionally: a move always
        # yields the destination (a partial replay — the events merged since the
        # last sync — sees a MoveFile whose CreateFile is not in the window)
        want_ops = {"CreateFile": ["insert"], "MoveFile": ["shift_remove", "insert"], "DeleteFile": ["shift_remove"]}
        for b in [b for f in red for b in f.bodies]:
            for es in cfg.enum_switches(b):
                if es.enum != "sos_core::events::file::FileEvent":
                    continue
                regs = idioms.arm_regions(b, es)
                for v, ops_ in want_ops.items():
                    if v not in es.targets:
                        continue
                    reg = regs.get(v, set())
                    for op_ in ops_:
                        sites = [i for i in reg if (b.blocks[i].get("term") or {}).get("k") == "call" and cname(b.blocks[i]["term"]) in (op_, op_.replace("shift_", "swap_"), op_.replace("shift_", ""))]
                        kk = "%s|%s-arm:%s" % (red[0].root, v, op_)
                        if not sites:
                            r.violation(kk, cfg.loc(b, es.block), "the %s arm of the file reducer no longer calls %s" % (v, op_), work=len(reg))
                            continue
                        escaped = cfg.reach(b, [es.targets[v]], cut_blocks=sites) - reg
                        if escaped:
                            r.violation(kk, cfg.loc(b, sites[0]), "in the %s arm `%s` sits behind a condition: when the arm runs without it (e.g. a move whose source is not in the replayed window) the canonical file set misses the file and the blob is never downloaded" % (v, op_), work=len(reg))
                        else:
                            r.ok(kk, cfg.loc(b, sites[0]), "%s arm always performs %s" % (v, op_), work=len(reg))
        need = {"CreateFile", "MoveFile", "DeleteFile"}
        k = red[0].root + "|handles"
        if need <= handled:
            r.ok(k, cfg.loc(red[0].main), "reducer arms: %s" % sorted(handled), work=len(variants))
        else:
            r.violation(k, cfg.loc(red[0].main), "FileReducer::reduce has no arm for %s" % sorted(need - handled), work=len(variants))
    else:
        r.anchor_missing("FileReducer::reduce")
    mv = ws.find_fns(r"^sos_server::handlers::files::handlers::move_file$")
    if mv:
        body = cfg.code_body(ws, mv[0])
        cp = _call_blocks(body, "copy")
        rm = _call_blocks(body, "remove_file")
        k = mv[0].root + "|copy-before-remove"
        if cp and rm and not any(x in cfg.reach(body, [0], cut_blocks=cp) for x in rm):
            # and the copy must have succeeded
            rb = idioms.result_branches(body, cp[0])
            if rb and any(x in cfg.reach(body, rb[1]) for x in rm):
                r.violation(k, cfg.loc(body, rm[0]), "the source is removed even when the copy failed", work=len(body.blocks))
            else:
                r.ok(k, cfg.loc(body, rm[0]), "remove_file(source) only after a successful copy", work=len(body.blocks))
        else:
            r.violation(k, cfg.loc(body), "move_file can delete the source without copying it first", work=len(body.blocks))
    else:
        r.anchor_missing("handlers::files::handlers::move_file")


# extra build configurations analysed in the thorough tier
# one reviewed exception per (function, result type): the result cannot carry file events
NO_FILES = {
    ("<sos_account::local_account::LocalAccount as sos_account::traits::Account>::import_contacts", "SecretChange"):
        "the secret created is Secret::Contact with default user data: it has no file attachment, so create_secret returns no file events",
}


def r5_file_events_not_dropped(ctx):
    """The transfer queue (upload / move / delete on the server and other
    devices) is built from the `file_events` that operations return: a result
    struct carrying file events must be passed on whole or have that field read."""
    ws = ctx.ws
    r = ctx.rule("C17-R5", "file events returned by a nested operation are passed on (the `file_events` field of a result is never left unread)",
                 floor=10, kind="K5 field coverage of intermediate results")
    adts = {p_ for p_, a in ws.adts.items() if a["kind"] == "Struct" and a["variants"]
            and any(f["name"] == "file_events" for f in a["variants"][0]["fields"])}
    if not adts:
        if ctx.config == "workspace":
            r.anchor_missing("result structs with a file_events field")
        return
    n = 0
    for root, fn in sorted(ws.fns.items()):
        if fn.crate in idioms.TEST_CRATES:
            continue
        for b in fn.bodies:
            cands = [l for l, ty in enumerate(b.locals) if re.sub(r"<.*", "", ty) in adts and l > b.argc]
            if not cands:
                continue
            live = cfg.live_blocks(b)
            use = {l: [False, False, False] for l in cands}   # any, whole, field
            def see(p_):
                l = cfg.place_local(p_)
                if l in use:
                    use[l][0] = True
                    if "." not in p_:
                        use[l][1] = True
                    elif "file_events" in cfg.place_fields(p_):
                        use[l][2] = True
            for i in live:
                blk = b.blocks[i]
                for st in blk["s"]:
                    if st.get("p"):
                        see(st["p"])
                    for o in st.get("ops", []) or []:
                        p_ = cfg.op_place(o)
                        if p_:
                            see(p_)
                for a in (blk.get("term") or {}).get("args", []) or []:
                    p_ = cfg.op_place(a)
                    if p_:
                        see(p_)
            idx = 0
            for l in cands:
                anyu, whole, field = use[l]
                if not anyu:
                    continue
                n += 1
                idx += 1
                k = "%s|%s#%d" % (root, re.sub(r"<.*", "", b.locals[l]).rsplit("::", 1)[-1], idx)
                why = NO_FILES.get((root, re.sub(r"<.*", "", b.locals[l]).rsplit("::", 1)[-1]))
                if why and not (whole or field):
                    r.ok(k, cfg.loc(b), "reviewed: " + why, work=1)
                    continue
                if whole or field:
                    r.ok(k, cfg.loc(b), "the %s is %s" % (re.sub(r"<.*", "", b.locals[l]).rsplit("::", 1)[-1], "passed on whole" if whole else "taken apart including file_events"), work=len(live))
                else:
                    r.violation(k, cfg.loc(b),
                                "a %s produced here is taken apart without its `file_events`: the file events of the nested operation never reach the caller, so the blob is not transferred/removed on the server and other devices" % re.sub(r"<.*", "", b.locals[l]).rsplit("::", 1)[-1],
                                work=len(live))
    if n < 10 and ctx.config == "workspace":
        r.anchor_missing("intermediate results with file_events (found %d, 17 on the pinned tree)" % n)


def r6_listing_and_attachments(ctx):
    """(a) a blob listed from a directory is named by its whole file name
    (`<sha256>` — a temporary `<sha256>.upload` / `.download` must not parse as a
    stored blob); (b) the attachments of a secret are enumerated whatever the
    kind of the secret itself."""
    ws = ctx.ws
    r = ctx.rule("C17-R6", "listed blobs are named by the whole file name; attachment fields are enumerated for every secret kind",
                 floor=2, kind="K4 flow (source of the parsed name) + K2 reachability outside one match arm")
    n = 0
    for f in ws.find_fns(r"^sos_external_files::file_helpers::list_\w+$"):
        fg = FlowGraph(ws, f)
        for b in f.bodies:
            for i, t in idioms.real_calls(b, cfg.live_blocks(b)):
                full = (t.get("callee_full") or "") + " " + " ".join(t.get("targs") or [])
                if cname(t) not in ("parse", "from_str", "try_from", "try_into") or "ExternalFileName" not in full:
                    continue
                n += 1
                sl = fg.back_from_operand(b, t["args"][0])
                names = {cname(ct) for _b, _i, ct in sl.calls}
                k = "%s|name-source" % f.root
                if names & {"file_stem", "with_extension", "file_prefix", "strip_suffix", "trim_end_matches", "split"}:
                    r.violation(k, cfg.loc(b, i), "the listed blob name is parsed from %s, not from the whole file name: `<sha256>.upload` left by an interrupted transfer is reported as the stored blob `<sha256>`" % sorted(names & {"file_stem", "with_extension", "file_prefix", "strip_suffix", "trim_end_matches", "split"}), work=len(sl.nodes))
                elif "file_name" in names:
                    r.ok(k, cfg.loc(b, i), "parsed from Path::file_name()", work=len(sl.nodes))
                else:
                    r.violation(k, cfg.loc(b, i), "the listed blob name is not derived from Path::file_name()", work=len(sl.nodes))
    if n == 0:
        r.anchor_missing("ExternalFileName parse in sos_external_files::file_helpers::list_*")
    gf = ws.find_fns(r"^sos_client_storage::files::file_manager::get_external_file_secrets$")
    if not gf:
        if ctx.config == "workspace":
            r.anchor_missing("file_manager::get_external_file_secrets")
        return
    b = gf[0].main
    live = cfg.live_blocks(b)
    sites = [i for i, t in idioms.real_calls(b, live) if cname(t) == "fields" and "UserData" in (t.get("callee") or "")]
    k = gf[0].root + "|attachments-for-every-kind"
    if not sites:
        r.violation(k, cfg.loc(b), "get_external_file_secrets no longer walks the attachment fields", work=1)
        return
    cut = set()
    for es in cfg.enum_switches(b):
        if es.enum == "sos_vault::secret::Secret" and "File" in es.targets and all(x not in cfg.reach(b, [0], cut_blocks=[es.block]) for x in sites):
            cut.add((es.block, es.targets["File"]))
    if cut and not any(x in cfg.reach(b, [0], cut_edges=cut) for x in sites):
        r.violation(k, cfg.loc(b, sites[0]), "the attachment fields are only walked inside the `Secret::File` arm: a file attached to a note, login .. is not seen by move/delete, so its blob does not follow the secret", work=len(live))
    else:
        r.ok(k, cfg.loc(b, sites[0]), "attachment fields are walked for every secret kind", work=len(live))


THOROUGH_CONFIGS = ['net-min']


def run(ctx):
    ctx.explanation = (
        "Value-flow and path rules at the two blob creation points and at every file-manager call site: (R1) on the "
        "client the digest naming a blob is taken over exactly the buffer written; (R2) on the server an upload goes to "
        "a .upload temp file, the same chunks are hashed and written, and rename-into-place happens only on the "
        "digest==name edge under a cleanup guard; (R3) each external call of create/update/delete/move(_folder)_files "
        "is followed on every successful path by an append to the file log, and every FileMutationEvent variant is "
        "mapped; (R4) reducer arms and copy-before-delete on server moves; (R5) no result struct carrying file_events is taken apart without that field. Whether blob sets equal the reduced log "
        "after histories is not decided.")
    ctx.trust("sha2 Sha256", "tokio::fs::rename is atomic within a directory")
    r1_client_naming(ctx)
    r2_server_acceptance(ctx)
    r3_mutations_logged(ctx)
    r4_reducer_and_compare(ctx)
    r5_file_events_not_dropped(ctx)
    r6_listing_and_attachments(ctx)
