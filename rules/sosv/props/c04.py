"""C04 — Devices and server converge once edits stop and everyone syncs."""
import re
from .. import cfg, idioms
from ..flow import FlowGraph
from ..idioms import cname

ELT = "sos_core::events::EventLogType"
COMPARISON = re.compile(r"sos_core::commit::proof::Comparison$")
CHECKED = "sos_core::events::patch::CheckedPatch"
MAYBE_DIFF = re.compile(r"::MaybeDiff$")
SYNC_STORAGE = "sos_sync::traits::SyncStorage"


def _elt_param_fns(ws):
    out = []
    for f in ws.fns.values():
        if f.crate in idioms.TEST_CRATES:
            continue
        m = f.meta
        if m.get("trait") and re.search(r"(Deserialize|Serialize|::From$|::TryFrom$|::Clone$|::Debug$|::Into$)", m["trait"]):
            continue
        ins = m.get("inputs") or []
        if any(re.fullmatch(r"&?(?:'\w+ )?(?:mut )?" + re.escape(ELT), x) for x in ins):
            out.append(f)
    return out


def r1_log_kind_consistency(ctx):
    ws = ctx.ws
    r = ctx.rule("C04-R1", "a function given a log kind passes that kind on, never a fresh constant",
                 floor=10, kind="K4 value flow + K2 edge dominance")
    fns = _elt_param_fns(ws)
    if not fns:
        r.anchor_missing("functions with an EventLogType parameter")
        return
    for f in fns:
        fresh = []
        for b in f.bodies:
            live = cfg.live_blocks(b)
            for i in sorted(live):
                for s in b.blocks[i]["s"]:
                    if s.get("k") == "agg" and s.get("adt") == ELT:
                        fresh.append((b, i, s))
        if not fresh:
            r.ok(f.root + "|no-fresh-kind", cfg.loc(f.main), "no EventLogType constant constructed", work=len(f.bodies))
            continue
        for (b, i, s) in fresh:
            v = s["variant"]
            # allowed when dominated by the parameter's discriminant edge == v
            dominated = False
            for es in cfg.enum_switches(b):
                if es.enum == ELT and v in es.targets:
                    cut = {(es.block, es.targets[v])}
                    if i not in cfg.reach(b, [0], cut_edges=cut):
                        dominated = True
            # is the constant used as a call argument / struct field?
            dl = cfg.place_local(s["d"])
            used = False
            for bb, bi, t in f.calls():
                if bb is not b:
                    continue
                for a in t["args"]:
                    al = cfg.op_local(a)
                    if al == dl:
                        used = True
                    elif al is not None:
                        # one hop through a reference/move
                        for blk in b.blocks:
                            for st in blk["s"]:
                                if st.get("d") == str(al) and (st.get("p") == str(dl) or cfg.op_local((st.get("ops") or [None])[0]) == dl):
                                    used = True
            k = "%s|fresh:%s" % (f.root, v)
            if dominated or not used:
                r.ok(k, cfg.loc(b, i), "constant %s is %s" % (v, "under the matching arm of the parameter" if dominated else "not passed on"), work=len(b.blocks))
            else:
                r.violation(k, cfg.loc(b, i),
                            "EventLogType::%s is passed on as a constant in a function that received the log kind as a parameter: other log kinds are handled as %s" % (v, v),
                            work=len(b.blocks))


def _exclusive_region(body, es, variant):
    # the switch block itself is cut so that a match inside a loop does not
    # make every arm reach every other arm through the back edge
    mine = cfg.reach(body, [es.targets[variant]], cut_blocks=[es.block])
    others = set()
    for v, t in es.targets.items():
        if v != variant:
            others |= cfg.reach(body, [t], cut_blocks=[es.block])
    return mine - others


def _switch_label(body, es):
    fs = cfg.place_fields(es.place)
    for n in reversed(fs):
        if n and not n.isdigit():
            return n
    l = cfg.place_local(es.place)
    # follow one move/ref to find a named origin
    for blk in body.blocks:
        for s in blk["s"]:
            if s.get("d") == str(l):
                src = s.get("p") or cfg.op_place((s.get("ops") or [None])[0])
                if src:
                    fs = [x for x in cfg.place_fields(src) if x and not x.isdigit()]
                    if fs:
                        return fs[-1]
                    vn = body.vars.get(str(cfg.place_local(src)))
                    if vn:
                        return vn
    return body.vars.get(str(l)) or "?"


def r2_diff_siblings(ctx):
    ws = ctx.ws
    r = ctx.rule("C04-R2", "SyncComparison::diff handles every log kind alike: Contains pushes a checked diff, Unknown asks for a comparison",
                 floor=10, kind="K5 sibling agreement / K6 arm table")
    fns = ws.find_fns(r"sos_protocol::diff::SyncComparison::diff$")
    if not fns:
        r.anchor_missing("SyncComparison::diff")
        return
    f = fns[0]
    body = cfg.code_body(ws, f)
    sws = [es for es in cfg.enum_switches(body, COMPARISON) if {"Equal", "Contains", "Unknown"} <= set(es.targets)]
    want = 5 if ctx.config == "workspace" else 4   # no file log without feature `files`
    if len(sws) < want:
        r.violation(f.root + "|five-logs", cfg.loc(body),
                    "expected a three-way match on Comparison for each of the five log kinds, found %d" % len(sws), work=len(body.blocks))
    seen = {}
    for es in sws:
        label = _switch_label(body, es)
        seen[label] = seen.get(label, 0) + 1
        if seen[label] > 1:
            label = "%s#%d" % (label, seen[label])
        reg_c = _exclusive_region(body, es, "Contains")
        reg_u = _exclusive_region(body, es, "Unknown")
        has_diff = any(cname(body.blocks[i]["term"]) == "diff_checked" for i in reg_c
                       if body.blocks[i].get("term", {}).get("k") == "call")
        has_cmp = False
        for i in reg_u:
            for s in body.blocks[i]["s"]:
                if s.get("k") == "agg" and MAYBE_DIFF.search(s.get("adt") or "") and s.get("variant") == "Compare":
                    has_cmp = True
        k1 = "%s|%s|Contains->diff_checked" % (f.root, label)
        k2 = "%s|%s|Unknown->Compare" % (f.root, label)
        if has_diff:
            r.ok(k1, cfg.loc(body, es.block), "Contains arm calls diff_checked", work=len(reg_c))
        else:
            r.violation(k1, cfg.loc(body, es.block), "the Contains arm for `%s` does not push a checked diff" % label, work=len(reg_c))
        if has_cmp:
            r.ok(k2, cfg.loc(body, es.block), "Unknown arm sends MaybeDiff::Compare", work=len(reg_u))
        else:
            r.violation(k2, cfg.loc(body, es.block),
                        "the Unknown arm for `%s` sends nothing: a diverged %s log is neither merged nor reported as a conflict, unlike its sibling logs" % (label, label),
                        work=len(reg_u))


def r3_one_status(ctx):
    ws = ctx.ws
    r = ctx.rule("C04-R3", "one definition of sync status, over all five log kinds, with sorted folder roots",
                 floor=3, kind="K1 + K2")
    tr = ws.traits.get(SYNC_STORAGE)
    if not tr:
        r.anchor_missing("trait SyncStorage")
        return
    dflt = None
    for it in tr["items"]:
        if it["name"] == "sync_status":
            dflt = ws.fns.get(it["path"])
    if dflt is None:
        r.anchor_missing("SyncStorage::sync_status default body")
        return
    over = ws.impl_methods(SYNC_STORAGE, "sync_status")
    computing = {"commit_state", "append", "commit", "root", "folder_details", "head"}
    for o in over:
        ob = cfg.code_body(ws, o)
        names = {cname(t) for _i, t in idioms.real_calls(ob, cfg.live_blocks(ob))}
        if "sync_status" in names and not (names & computing):
            r.ok(o.root + "|override-delegates", cfg.loc(ob), "override only delegates to an inner sync_status", work=len(ob.blocks))
        else:
            r.violation(o.root + "|override", cfg.loc(ob),
                        "sync_status is overridden with its own computation (%s): client and server no longer share one definition" % sorted(names & computing), work=len(ob.blocks))
    r.ok(SYNC_STORAGE + "|impls", cfg.loc(dflt.main), "%d impls of SyncStorage, %d overrides examined" % (len(ws.impls_of(SYNC_STORAGE)), len(over)), work=len(ws.impls_of(SYNC_STORAGE)))
    body = cfg.code_body(ws, dflt)
    names = {cname(t) for _i, t in idioms.real_calls(body, cfg.live_blocks(body))}
    need = {"identity_log", "account_log", "device_log", "file_log", "folder_log"}
    if ctx.config != "workspace":
        need.discard("file_log")   # configurations without the `files` feature have no file log
    miss = need - names
    if miss:
        r.violation(dflt.root + "|reads-all-logs", cfg.loc(body), "sync_status does not read %s" % sorted(miss), work=len(body.blocks))
    else:
        r.ok(dflt.root + "|reads-all-logs", cfg.loc(body), "reads identity, account, device, file and folder logs", work=len(body.blocks))
    sorts = [i for i, t in idioms.real_calls(body) if cname(t) in ("sort_by", "sort_by_key", "sort", "sort_unstable_by", "sort_unstable_by_key")]
    appends = [i for i, t in idioms.real_calls(body) if re.search(r"CommitTree::append$", t.get("callee") or "")]
    if not appends:
        r.violation(dflt.root + "|root-tree", cfg.loc(body), "sync_status no longer builds the cumulative root tree", work=1)
    elif not sorts or any(a in cfg.reach(body, [0], cut_blocks=sorts) for a in appends):
        r.violation(dflt.root + "|sorted-folder-roots", cfg.loc(body), "folder roots are hashed without being sorted first: the cumulative root depends on map iteration order", work=len(body.blocks))
    else:
        r.ok(dflt.root + "|sorted-folder-roots", cfg.loc(body), "sort dominates the root-tree append", work=len(body.blocks))


def _reads_of_local(body, l, field=None):
    """Number of reads of a local (optionally of one tuple field)."""
    n = 0
    pref = str(l)

    def hit(p):
        if p is None:
            return False
        if cfg.place_local(p) != l:
            return False
        if field is None:
            return True
        proj = cfg.place_proj(p)
        return (not proj) or proj[0].startswith("f%d:" % field) or proj[0] == "*"
    for blk in body.blocks:
        if blk.get("cleanup"):
            continue
        for s in blk["s"]:
            if s.get("k") == "dead":
                continue
            if hit(s.get("p")):
                n += 1
            for o in s.get("ops", []):
                if hit(cfg.op_place(o)):
                    n += 1
        t = blk.get("term")
        if t:
            if t["k"] in ("call", "tailcall"):
                for o in t["args"]:
                    if hit(cfg.op_place(o)):
                        n += 1
            elif t["k"] == "switch":
                if hit(cfg.op_place(t["d"])):
                    n += 1
    return n


def r4_refused_patch_not_dropped(ctx):
    ws = ctx.ws
    r = ctx.rule("C04-R4", "no CheckedPatch result is discarded",
                 floor=10, kind="K1 result-use")
    n = 0
    for b in ws.bodies.values():
        if b.crate in idioms.TEST_CRATES:
            continue
        live = None
        seen_here = {}
        for l, ty in enumerate(b.locals):
            if l <= b.argc:
                continue
            fld = None
            if ty == CHECKED:
                fld = None
            elif ty.startswith("(" + CHECKED + ","):
                fld = 0
            else:
                continue
            # only locals that are assigned in live code
            d = cfg.defs_of(b).get(l)
            if not d:
                continue
            if live is None:
                live = cfg.live_blocks(b)
            d = [x for x in d if x[0] in live]
            if not d:
                continue
            n += 1
            reads = _reads_of_local(b, l, fld)
            ret = l in cfg.return_locals(b)
            src_line = b.blocks[d[0][0]].get("term", {}).get("l") or 0
            fb, ft = (None, None)
            # name the producing call for the key
            prod = idioms.failing_call_of_exit(b, d[0][0])[1] if not d[0][2] else d[0][1]
            pname = cname(prod) if prod else "?"
            idx = seen_here.get(pname, 0)
            seen_here[pname] = idx + 1
            k = "%s|result-of:%s#%d" % (b.root, pname, idx)
            if reads == 0 and not ret:
                after = cfg.reach_after(b, d[0][0])
                okx = [e for e in cfg.exits(b) if e.kind not in ("err",) and e.block in after]
                if not okx:
                    r.ok(k, cfg.loc(b, d[0][0]), "CheckedPatch from `%s` is unused, but every path from here ends in an error return (the conflict is reported anyway)" % pname, work=len(after))
                    continue
                r.violation(k, cfg.loc(b, d[0][0]),
                            "the CheckedPatch returned by `%s` is discarded: a Conflict (stale checkpoint) is silently treated as merged" % pname,
                            work=1)
            else:
                r.ok(k, cfg.loc(b, d[0][0]), "CheckedPatch from `%s` is inspected or returned" % pname, work=1)
    if n == 0:
        r.anchor_missing("locals of type CheckedPatch")


KIND_ORDER = ["identity", "account", "device", "files", "folder"]


def r6_canonical_log_order(ctx):
    """Every function that walks the five log kinds does so in the order
    identity, account, device, files, folders (account events need the identity
    folder's keys; folders need the account log's folder set)."""
    ws = ctx.ws
    r = ctx.rule("C04-R6", "all code that handles the five log kinds does so in the canonical order identity → account → device → files → folders",
                 floor=4, kind="K5 sibling agreement (call order)")
    prefixes = ("merge_", "force_merge_", "auto_merge_", "compare_")
    n = 0
    for f in ws.fns.values():
        if f.crate in idioms.TEST_CRATES:
            continue
        for b in f.bodies:
            live = cfg.live_blocks(b)
            for pre in prefixes:
                sites = {}
                for i, t in idioms.real_calls(b, live):
                    nm = cname(t)
                    if nm.startswith(pre) and nm[len(pre):] in KIND_ORDER and pre + nm[len(pre):] == nm:
                        sites.setdefault(nm[len(pre):], []).append(i)
                if len(sites) < 3:
                    continue
                n += 1
                kinds = [k for k in KIND_ORDER if k in sites]
                bad = None
                for a, c in zip(kinds, kinds[1:]):
                    # a later kind must never be followed by an earlier one
                    for cb in sites[c]:
                        after = cfg.reach_after(b, cb)
                        if any(ab in after for ab in sites[a]) and not any(cb2 in cfg.reach_after(b, ab) for ab in sites[a] for cb2 in sites[c] if cb2 == cb and False):
                            # allow loops: if a also reaches c it is a loop, only flag when c is NOT after a
                            if not any(cb in cfg.reach_after(b, ab) for ab in sites[a]):
                                bad = (a, c, cb)
                k = "%s|%s*" % (b.root, pre)
                if bad:
                    r.violation(k, cfg.loc(b, bad[2]), "`%s%s` runs before `%s%s` here, unlike every sibling (identity → account → device → files → folders): later kinds depend on the earlier logs being merged" % (pre, bad[1], pre, bad[0]), work=len(live))
                else:
                    r.ok(k, cfg.loc(b), "%s{%s} in canonical order" % (pre, ",".join(kinds)), work=len(live))
    if n < 4:
        r.anchor_missing("functions that walk the log kinds (found %d)" % n)


def r2b_field_to_field(ctx):
    """Struct-to-struct projections over the five log kinds read each field
    from the same-named field."""
    ws = ctx.ws
    r = ctx.rule("C04-R2b", "per-log records are built field by field from the same-named field of their source",
                 floor=1, kind="K5 sibling agreement (field mapping)")
    kinds = {"identity", "account", "device", "files", "folders"}
    n = 0
    for f in ws.fns.values():
        if f.crate in idioms.TEST_CRATES or not f.crate.startswith("sos_"):
            continue
        if f.meta.get("exp"):
            continue
        sa = f.meta.get("self_adt")
        if not sa or sa not in ws.adts or ws.adts[sa]["kind"] != "Struct":
            continue
        sfields = {x["name"] for x in ws.adts[sa]["variants"][0]["fields"]}
        if len(sfields & kinds) < 4:
            continue
        fg = None
        for b in f.bodies:
            for j in sorted(cfg.live_blocks(b)):
                for st in b.blocks[j]["s"]:
                    if st.get("k") != "agg" or st.get("ak") != "adt":
                        continue
                    flds = st.get("fields") or []
                    if len(set(flds) & kinds) < 4 or st["adt"] == sa and False:
                        continue
                    fg = fg or FlowGraph(ws, f)
                    n += 1
                    for fname, op in zip(flds, st["ops"]):
                        if fname not in kinds or fname not in sfields:
                            continue
                        sl = fg.back_from_operand(b, op)
                        got = set()
                        for (bb, p) in sl.reads:
                            for nm in cfg.place_fields(p):
                                if nm in kinds:
                                    got.add(nm)
                        k = "%s|%s.%s" % (f.root, st["adt"].rsplit("::", 1)[-1], fname)
                        if not got or fname in got and len(got) == 1:
                            r.ok(k, cfg.loc(b, j), "`%s` built from self.%s" % (fname, fname) if got else "`%s` not built from a per-log field" % fname, work=len(sl.nodes) + 1)
                        elif fname in got:
                            r.ok(k, cfg.loc(b, j), "`%s` built from %s" % (fname, sorted(got)), work=len(sl.nodes) + 1)
                        else:
                            r.violation(k, cfg.loc(b, j), "field `%s` of %s is computed from self.%s: the %s log is judged by another log's state" % (fname, st["adt"].rsplit("::", 1)[-1], sorted(got), fname), work=len(sl.nodes) + 1)
    if n < 1:
        r.anchor_missing("per-log struct projections (e.g. SyncCompare::maybe_conflict)")


def r4b_conflict_reported_as_unknown(ctx):
    """A refused patch must surface as a conflict: the only verdict the client
    treats as one is Comparison::Unknown (maybe_conflict)."""
    ws = ctx.ws
    r = ctx.rule("C04-R4b", "a CheckedPatch::Conflict is reported to the other side as Comparison::Unknown",
                 floor=5, kind="K6 arm table")
    n = 0
    for f in ws.fns.values():
        if f.crate in idioms.TEST_CRATES or f.meta.get("exp"):
            continue
        for b in f.bodies:
            for es in cfg.enum_switches(b, re.compile(re.escape(CHECKED) + "$")):
                if "Conflict" not in es.targets:
                    continue
                reg = idioms.arm_regions(b, es).get("Conflict", set())
                idx = 0
                for j in sorted(reg):
                    for st in b.blocks[j]["s"]:
                        if st.get("k") == "agg" and COMPARISON.search(st.get("adt") or ""):
                            n += 1
                            k = "%s|conflict-verdict#%d" % (b.root, idx)
                            idx += 1
                            if st["variant"] == "Unknown":
                                r.ok(k, cfg.loc(b, j), "Conflict -> Comparison::Unknown", work=len(reg))
                            else:
                                r.violation(k, cfg.loc(b, j),
                                            "a refused patch (CheckedPatch::Conflict) is reported as Comparison::%s: the client only treats Unknown as a conflict, so its sync reports success although its events were not applied" % st["variant"],
                                            work=len(reg))
    if n < 5:
        r.anchor_missing("Comparison verdicts built from CheckedPatch::Conflict (found %d)" % n)


def r5_hard_conflict(ctx):
    ws = ctx.ws
    r = ctx.rule("C04-R5", "each hard-conflict handler fetches the full remote log and force-merges the same log kind",
                 floor=0, kind="K2 pairing")
    fns = ws.find_fns(r"auto_merge::AutoMerge::\w*hard_conflict\w*$")
    for f in fns:
        body = cfg.code_body(ws, f)
        names = [cname(t) for _i, t in idioms.real_calls(body, cfg.live_blocks(body))]
        fm = [n for n in names if n.startswith("force_merge")]
        k = f.root + "|force-merge"
        if fm:
            r.ok(k, cfg.loc(body), "calls %s" % sorted(set(fm)), work=len(body.blocks))
        else:
            r.note("%s has no force_merge call (informational)" % f.root)


# extra build configurations analysed in the thorough tier
THOROUGH_CONFIGS = ['net-min']


LOG_KIND = {"Identity": "identity", "Account": "account", "Device": "device", "Files": "file", "Folder": "folder"}
KIND_CALL = re.compile(r"^(?:\w+_)?(identity|account|device|file|folder)_log$|^(?:merge|force_merge|compare|auto_merge)_(identity|account|device|files|folder)$")


def r7_log_kind_arms(ctx, rule_id="C04-R7"):
    """In every `match log_type { Identity => .., Account => .., .. }` the arm
    for one log kind only touches that kind's log / merge function: a copied
    arm with the wrong accessor reads or writes another log of the same type."""
    ws = ctx.ws
    r = ctx.rule(rule_id, "each arm of a match on EventLogType uses the log accessor / merge function of its own kind",
                 floor=40, kind="K6 arm table")
    n = 0
    for root, fn in sorted(ws.fns.items()):
        if fn.crate in idioms.TEST_CRATES:
            continue
        for b in fn.bodies:
            for es in cfg.enum_switches(b):
                if es.enum != "sos_core::events::EventLogType":
                    continue
                # arms are grouped by target block: `Identity | Folder(_) => ..` is ONE arm
                # serving two kinds, and whatever it calls must fit both
                by_tgt = {}
                for v, tgt in es.targets.items():
                    by_tgt.setdefault(tgt, []).append(v)
                reach_t = {tgt: cfg.reach(b, [tgt], cut_blocks=[es.block]) for tgt in by_tgt}
                if es.otherwise_live and es.otherwise not in reach_t:
                    reach_t[es.otherwise] = cfg.reach(b, [es.otherwise], cut_blocks=[es.block])
                for tgt, vs in sorted(by_tgt.items()):
                    others = set()
                    for t2, rr in reach_t.items():
                        if t2 != tgt:
                            others |= rr
                    region = reach_t[tgt] - others
                    calls = [(i, b.blocks[i]["term"]) for i in sorted(region)
                             if (b.blocks[i].get("term") or {}).get("k") == "call" and not idioms.is_noise(b.blocks[i]["term"]) and not idioms.is_logging(b.blocks[i]["term"])]
                    for v in sorted(vs):
                        if v not in LOG_KIND:
                            continue
                        idx = 0
                        for i, t in calls:
                            m = KIND_CALL.match(cname(t))
                            if not m:
                                continue
                            kind = (m.group(1) or m.group(2)).rstrip("s")
                            n += 1
                            idx += 1
                            k = "%s|%s|%s#%d" % (root, v, cname(t), idx)
                            if kind == LOG_KIND[v]:
                                r.ok(k, cfg.loc(b, i), "%s arm uses %s" % (v, cname(t)), work=1)
                            else:
                                r.violation(k, cfg.loc(b, i), "the %s arm%s calls %s: it reads or changes the %s log where the %s log is meant" % (
                                    v, " (shared with %s)" % ", ".join(x for x in vs if x != v) if len(vs) > 1 else "", cname(t), kind, LOG_KIND[v]), work=1)
    if n < 40:
        r.anchor_missing("log-kind calls inside EventLogType arms (found %d, 51 on the pinned tree)" % n)


KIND_FIELDS = {"identity", "account", "device", "files", "folders"}
DERIVED = re.compile(r"(::Clone|::PartialEq|::Eq|::Debug|::Serialize|::Deserialize|::Message|::Default|::Hash)$")


def r8_per_kind_aggregates(ctx):
    """A hand-written method of a per-log-kind record (identity / account /
    device / files / folders fields) that looks at two or more of the kinds
    looks at all of them: dropping one kind from `has_conflicts`, `diff`, a
    conversion .. makes that log invisible to the sync."""
    ws = ctx.ws
    r = ctx.rule("C04-R8", "methods of per-log-kind records cover every log kind the record has",
                 floor=3, kind="K5 field coverage")
    n = 0
    for path, a in sorted(ws.adts.items()):
        if a["kind"] != "Struct" or not a["variants"] or not (path.startswith("sos_sync::") or path.startswith("sos_protocol::diff")):
            continue
        fs = {f["name"] for f in a["variants"][0]["fields"]} & KIND_FIELDS
        if len(fs) < 4:
            continue
        for imp in ws.impls:
            if imp.get("self_adt") != path or DERIVED.search(imp.get("trait") or ""):
                continue
            for it in imp["items"]:
                fn = ws.fns.get(it["path"])
                if fn is None or fn.meta.get("exp"):
                    continue
                rd, wr = idioms.fields_touched(ws, fn, path)
                seen = (rd | wr) & KIND_FIELDS
                if len(seen) < 2:
                    continue
                n += 1
                k = "%s|covers-kinds" % it["path"]
                miss = sorted(fs - seen)
                if miss:
                    r.violation(k, cfg.loc(fn.main), "%s of %s looks at %s but not at `%s`: a divergence/change that is only in that log is ignored by every sync" % (
                        it["name"], path.rsplit("::", 1)[-1], sorted(seen), "`, `".join(miss)), work=len(fs))
                else:
                    r.ok(k, cfg.loc(fn.main), "%s covers %s" % (it["name"], sorted(seen)), work=len(fs))
    if n < 3:
        r.anchor_missing("hand-written methods over per-kind records (found %d, 3 on the pinned tree: has_conflicts, maybe_conflict, diff)" % n)


FILTERING = {"filter", "filter_map", "take", "skip", "take_while", "skip_while", "step_by", "retain", "find", "find_map", "nth", "last", "rev_filter"}


def r9_every_conflicting_folder(ctx):
    """The conflict branch of sync leaves every folder listed in
    `MaybeConflict::folders` to auto_merge (flagged true *or* false — a folder
    that is merely behind is listed too): the per-folder step runs for every
    entry, unfiltered and unconditionally."""
    ws = ctx.ws
    r = ctx.rule("C04-R9", "auto_merge runs the folder step for every entry of conflict.folders",
                 floor=2, kind="K4 flow (no filtering adaptor) + K2 must-pass-through inside the loop")
    f = ws.fn("sos_remote_sync::auto_merge::AutoMerge::auto_merge")
    if not f:
        r.anchor_missing("AutoMerge::auto_merge")
        return
    fg = FlowGraph(ws, f)
    body, live, steps = None, None, []
    for b_ in f.bodies:
        lv = cfg.live_blocks(b_)
        st_ = [i for i, t in idioms.real_calls(b_, lv) if cname(t) == "auto_merge_folder"]
        if st_:
            body, live, steps = b_, lv, st_
    if not steps:
        r.anchor_missing("auto_merge_folder call in auto_merge")
        return
    loops = []
    for i, t in body.calls():
        if i in live and cname(t) == "next" and (t.get("macro") or "").endswith("ForLoop"):
            es = cfg.enum_switch(body, t.get("t")) if t.get("t") is not None else None
            if es and "Some" in es.targets and any(s_ in cfg.reach(body, [es.targets["Some"]], cut_blocks=[i]) for s_ in steps):
                loops.append((i, t, es))
    if not loops:
        r.violation(f.root + "|folder-loop", cfg.loc(body, steps[0]), "auto_merge_folder is no longer called from a loop over the conflicting folders", work=len(live))
        return
    for (i, t, es) in loops:
        sl = fg.back_from_operand(body, t["args"][0])
        filt = sorted({cname(ct) for _b, _i, ct in sl.calls if cname(ct) in FILTERING})
        k = f.root + "|iterates-all"
        if not sl.reads_field("folders"):
            r.violation(k, cfg.loc(body, i), "the folder loop does not iterate conflict.folders", work=len(sl.nodes))
        elif filt:
            r.violation(k, cfg.loc(body, i), "the folder loop iterates conflict.folders through %s: entries flagged false (the device is merely behind on that folder) are listed for auto_merge by the caller and would now be merged by nobody" % filt, work=len(sl.nodes))
        else:
            r.ok(k, cfg.loc(body, i), "iterates conflict.folders unfiltered", work=len(sl.nodes))
        k2 = f.root + "|step-unconditional"
        back = cfg.reach(body, [es.targets["Some"]], cut_blocks=steps)
        if i in back:
            p_ = cfg.find_path(body, [es.targets["Some"]], [i], cut_blocks=steps)
            r.violation(k2, cfg.loc(body, steps[0]), "an iteration of the folder loop can complete without calling auto_merge_folder", work=len(live), witness=cfg.path_lines(body, p_))
        else:
            r.ok(k2, cfg.loc(body, steps[0]), "every iteration calls auto_merge_folder (or fails)", work=len(live))


KIND_WORD = re.compile(r"(?:^|_)(identity|account|device|files|file|folders|folder)(?:_|$)")


def _kind_split(name):
    m = KIND_WORD.search(name)
    if not m:
        return None
    return name[:m.start(1)] + "K" + name[m.end(1):], m.group(1).rstrip("s")


def r10_family_kind_consistency(ctx):
    """Per-kind function families (a stem such as merge_K, force_merge_K,
    compare_K, auto_merge_K, K_log, K_hard_conflict that exists for all five
    log kinds) are discovered from the function names of the workspace; inside
    a member of a family every call to a member of any family has the same
    kind (merge_device -> device_log, NetworkAccount::merge_files ->
    inner.merge_files ..). A copied sibling that still calls another kind's
    function reads or changes the wrong log."""
    ws = ctx.ws
    r = ctx.rule("C04-R10", "inside a per-log-kind function every call to a per-log-kind function is of the same kind",
                 floor=120, kind="K5 sibling families discovered by name, kind agreement of calls")
    fam = {}
    for root, fn in ws.fns.items():
        if fn.crate in idioms.TEST_CRATES or "{closure" in root:
            continue
        sp = _kind_split(idioms.last_seg(root))
        if sp:
            fam.setdefault(sp[0], set()).add(sp[1])
    families = {st for st, ks in fam.items() if len(ks) >= 5}
    r.note("families: %s" % sorted(families))
    if len(families) < 4:
        r.anchor_missing("per-kind function families (found %s)" % sorted(families))
    n = 0
    for root, fn in sorted(ws.fns.items()):
        if fn.crate in idioms.TEST_CRATES or "{closure" in root:
            continue
        me = _kind_split(idioms.last_seg(root))
        if not me or me[0] not in families:
            continue
        idx = 0
        for b in fn.bodies:
            for i, t in idioms.real_calls(b):
                c = _kind_split(cname(t))
                if not c or c[0] not in families:
                    continue
                n += 1
                idx += 1
                k = "%s|%s#%d" % (root, cname(t), idx)
                if c[1] == me[1]:
                    r.ok(k, cfg.loc(b, i), "%s -> %s" % (idioms.last_seg(root), cname(t)), work=1)
                else:
                    r.violation(k, cfg.loc(b, i), "%s (the %s log) calls %s (the %s log): a sibling copied without renaming works on the wrong log" % (
                        idioms.last_seg(root), me[1], cname(t), c[1]), work=1)
    if n < 120:
        r.anchor_missing("family-to-family calls (found %d, 166 on the pinned tree)" % n)


def run(ctx):
    ctx.explanation = (
        "Structural necessary conditions of convergence, decided over the MIR of the sync path: (R1) every function "
        "that receives an EventLogType passes it on rather than a fresh constant; (R2) the five per-log matches in "
        "SyncComparison::diff agree (Contains → diff_checked, Unknown → MaybeDiff::Compare); (R3) sync_status has a "
        "single definition reading all five log kinds with sorted folder roots; (R4) every CheckedPatch value produced "
        "anywhere in the workspace is inspected or returned, never dropped. Convergence itself (a liveness claim over "
        "histories and schedules) is not decided.")
    ctx.trust("rustc MIR construction", "type strings printed by rustc identify CheckedPatch-typed locals")
    r1_log_kind_consistency(ctx)
    r2_diff_siblings(ctx)
    r2b_field_to_field(ctx)
    r3_one_status(ctx)
    r4_refused_patch_not_dropped(ctx)
    r4b_conflict_reported_as_unknown(ctx)
    r5_hard_conflict(ctx)
    r6_canonical_log_order(ctx)
    r7_log_kind_arms(ctx)
    r8_per_kind_aggregates(ctx)
    r9_every_conflicting_folder(ctx)
    r10_family_kind_consistency(ctx)
