"""C03 — Secret material never reaches storage or the network unencrypted."""
import re
from .. import cfg, idioms
from ..flow import FlowGraph
from ..idioms import cname

AEAD_PACK = "sos_core::crypto::AeadPack"
# Types that hold decrypted secret material or key material.
PLAINTEXT = {
    "sos_vault::secret::Secret", "sos_vault::secret::SecretMeta", "sos_vault::secret::SecretRow",
    "sos_vault::secret::UserData", "sos_vault::secret::FileContent", "sos_vault::secret::SecretSigner",
    "sos_vault::vault::VaultMeta",
    "secrecy::SecretBox", "sos_core::crypto::AccessKey", "sos_core::crypto::private_key::PrivateKey",
    "sos_core::crypto::private_key::DerivedPrivateKey", "age::x25519::Identity",
    "sos_signer::ed25519::SingleParty", "sos_signer::ecdsa::SingleParty", "totp_rs::TOTP",
    "sos_login::folder_keys::FolderKeys", "sos_login::device::DeviceSigner",
}
# Top-level plaintext encoders.
ENCODERS = re.compile(r"^(sos_core::encoding::encode|binary_stream::futures::encode|serde_json::ser::to_(vec|vec_pretty|string|string_pretty|writer|writer_pretty)|serde_json::value::to_value|serde_json::to_value)$")
ENCRYPTS = re.compile(r"(Vault::encrypt$|Cipher::encrypt_(symmetric|asymmetric)$|cipher::\w+::encrypt$)")
# Functions allowed to produce a plaintext encoding that is not encrypted,
# each with the reason.
PLAINTEXT_SINK_EXCEPTIONS = {
    "sos::commands::secret::run": "CLI prints a secret's meta data to the user's terminal on request",
    "sos::helpers::editor::to_bytes": "CLI hands the secret to the user's $EDITOR on request",
    "<sos_account::local_account::LocalAccount as sos_account::traits::Account>::copy_clipboard": "user-requested copy of a secret field to the clipboard (memory, not storage)",
}
EXPORT_CRATES = {"sos_migrate": "user-requested unencrypted export/import (migrate)"}


def _closure(ws, root):
    """All ADT paths (workspace and external names) in the field closure of root, with a path."""
    seen = {}
    stack = [(root, [root])]
    while stack:
        a, path = stack.pop()
        if a in seen:
            continue
        seen[a] = path
        adt = ws.adts.get(a)
        if not adt:
            continue
        for v in adt["variants"]:
            for f in v["fields"]:
                for x in f["adts"]:
                    if x not in seen:
                        stack.append((x, path + ["%s.%s" % (a.rsplit("::", 1)[-1], f["name"]), x]))
    return seen


def persisted_roots(ws):
    roots = {}
    for a, adt in ws.adts.items():
        c = adt["crate"]
        if c in idioms.TEST_CRATES:
            continue
        short = a.rsplit("::", 1)[-1]
        if a.startswith("sos_core::events::") and adt["kind"] == "Enum" and short.endswith("Event"):
            roots[a] = "event type (hashed, stored, sent)"
        elif a in ("sos_core::events::record::EventRecord", "sos_core::VaultCommit", "sos_core::VaultEntry",
                   "sos_vault::vault::Vault", "sos_vault::vault::Header", "sos_vault::vault::Summary",
                   "sos_vault::vault::Contents", "sos_vault::vault::Auth"):
            roots[a] = "vault / log storage type"
        elif c == "sos_protocol" and (short.startswith("Wire") or "bindings" in a):
            roots[a] = "wire message"
        elif c == "sos_sync" and a.startswith("sos_sync::types::"):
            roots[a] = "sync payload"
        elif c == "sos_audit" and a.startswith("sos_audit::event::"):
            roots[a] = "audit record"
        elif c == "sos_database" and a.startswith("sos_database::entity::") and (short.endswith("Row") or short.endswith("Record")):
            roots[a] = "database row"
        elif short.startswith("Manifest") and c in ("sos_filesystem", "sos_database", "sos_backend", "sos_archive"):
            roots[a] = "archive manifest"
        elif c == "sos_server_storage" or (c == "sos_core" and a.startswith("sos_core::origin")):
            pass
    return roots


def r1_type_containment(ctx):
    ws = ctx.ws
    r = ctx.rule("C03-R1", "no stored or transmitted type contains a plaintext-bearing or key-bearing type",
                 floor=60, kind="K7 type containment")
    roots = persisted_roots(ws)
    for a in sorted(roots):
        cl = _closure(ws, a)
        bad = [x for x in cl if x in PLAINTEXT]
        if bad:
            x = bad[0]
            r.violation(a + "|contains:" + x, "%s:%s" % (ws.adts[a]["file"], ws.adts[a]["line"]),
                        "%s (%s) contains %s through %s: decrypted material becomes part of what is persisted or sent" % (
                            a, roots[a], x, " -> ".join(cl[x][1:])), work=len(cl))
        else:
            r.ok(a + "|clean", "%s:%s" % (ws.adts[a]["file"], ws.adts[a]["line"]), "%s: closure of %d types is free of plaintext/key types" % (roots[a], len(cl)), work=len(cl))


def r2_ciphertext_provenance(ctx):
    ws = ctx.ws
    r = ctx.rule("C03-R2", "an AeadPack is only ever produced by a cipher (or decoded); plaintext encodings go into a cipher",
                 floor=8, kind="K1 who-constructs + K4 value flow")
    # (a) who constructs AeadPack
    for f in ws.fns.values():
        if f.crate in idioms.TEST_CRATES:
            continue
        for b in f.bodies:
            for j in cfg.live_blocks(b):
                for s in b.blocks[j]["s"]:
                    if s.get("k") != "agg" or s.get("adt") != AEAD_PACK:
                        continue
                    k = "%s|constructs-AeadPack" % f.root
                    if re.search(r"^sos_core::crypto::cipher::\w+::encrypt$", f.root):
                        fg = FlowGraph(ws, f)
                        idx = s["fields"].index("ciphertext") if "ciphertext" in s["fields"] else 0
                        sl = fg.back_from_operand(b, s["ops"][idx])
                        src = [ct for _b, _i, ct in sl.calls if (ct.get("method") == "encrypt" and "Aead" in (ct.get("trait") or "")) or re.search(r"(wrap_output|wrap_async_output|Encryptor)", ct.get("callee") or "")]
                        if src:
                            r.ok(k, cfg.loc(b, j), "ciphertext field is the cipher's output", work=len(sl.nodes))
                        else:
                            r.violation(k, cfg.loc(b, j), "the ciphertext field of the AeadPack built in %s does not come out of the cipher" % idioms.last_seg(f.root), work=len(sl.nodes))
                    elif re.search(r"(Decodable|Deserialize|::Default>::default|::Clone>::clone|TryFrom|From<)", f.root):
                        r.ok(k, cfg.loc(b, j), "decoder / default / clone of stored ciphertext", work=1)
                    else:
                        r.violation(k, cfg.loc(b, j), "an AeadPack is assembled outside the cipher modules: arbitrary bytes can be stored as if they were ciphertext", work=1)
    # (b) plaintext encodings are consumed by a cipher in the same function
    n = 0
    for f in ws.fns.values():
        if f.crate in idioms.TEST_CRATES:
            continue
        fg = None
        cnt = 0
        for b, i, t in f.calls():
            if i not in cfg.live_blocks(b):
                continue
            if not cfg.call_matches(t, ENCODERS):
                continue
            plain = sorted(set(t.get("targ_adts") or []) & PLAINTEXT)
            if not plain:
                continue
            n += 1
            k = "%s|plaintext-encoding:%s#%d" % (f.root, plain[0].rsplit("::", 1)[-1], cnt)
            cnt += 1
            if f.root in PLAINTEXT_SINK_EXCEPTIONS:
                r.ok(k, cfg.loc(b, i), "tabled exception: " + PLAINTEXT_SINK_EXCEPTIONS[f.root], work=1)
                continue
            if f.crate in EXPORT_CRATES:
                r.ok(k, cfg.loc(b, i), "tabled exception: " + EXPORT_CRATES[f.crate], work=1)
                continue
            if re.search(r"(Encodable|Serialize)", f.root):
                r.ok(k, cfg.loc(b, i), "nested inside another plaintext encoder", work=1)
                continue
            fg = fg or FlowGraph(ws, f)
            consumed = False
            for b2, i2, t2 in f.calls():
                if cfg.call_matches(t2, ENCRYPTS):
                    for a in t2["args"]:
                        sl = fg.back_from_operand(b2, a)
                        if any(cb is b and ci == i for cb, ci, _ct in sl.calls):
                            consumed = True
            if consumed:
                r.ok(k, cfg.loc(b, i), "the encoding of %s is handed to a cipher" % plain[0].rsplit("::", 1)[-1], work=len(fg.dep))
            else:
                r.violation(k, cfg.loc(b, i),
                            "a plaintext encoding of %s is produced in %s and not handed to a cipher there (and the function is not a tabled user-requested output)" % (plain[0], idioms.last_seg(f.root)),
                            work=len(fg.dep))
    if n < 6:
        r.anchor_missing("plaintext encoding sites (found %d)" % n)


def r3_no_plaintext_in_logs(ctx):
    ws = ctx.ws
    r = ctx.rule("C03-R3", "no plaintext-bearing value is formatted into log output",
                 floor=1, kind="K1")
    n = 0
    for f in ws.fns.values():
        if f.crate in idioms.TEST_CRATES:
            continue
        for b, i, t in f.calls():
            c = t.get("callee") or ""
            if not re.search(r"core::fmt::rt::Argument::<'_>::new_(debug|display)|tracing_core::field::(debug|display)|tracing::field::(debug|display)", c):
                continue
            n += 1
            plain = sorted((set(t.get("targ_adts") or []) & PLAINTEXT) - {"secrecy::SecretBox"})
            if not plain:
                continue
            k = "%s|formats:%s" % (f.root, plain[0].rsplit("::", 1)[-1])
            if idioms.is_logging(t):
                r.violation(k, cfg.loc(b, i), "%s is formatted inside a tracing/log macro: decrypted material reaches the log file" % plain[0], work=1)
            elif f.root in PLAINTEXT_SINK_EXCEPTIONS:
                r.ok(k, cfg.loc(b, i), "tabled exception: " + PLAINTEXT_SINK_EXCEPTIONS[f.root], work=1)
            elif re.search(r"(::Debug>::fmt|::Display>::fmt)", f.root):
                r.ok(k, cfg.loc(b, i), "part of a Debug/Display impl (not an output site)", work=1)
            elif (t.get("macro") or "").rsplit("::", 1)[-1] in ("println", "print", "eprintln", "write", "writeln", "format") and f.crate in ("sos", "sos__bin"):
                r.ok(k, cfg.loc(b, i), "CLI output to the user's terminal", work=1)
            else:
                r.violation(k, cfg.loc(b, i), "%s is formatted into a string outside a Debug/Display impl" % plain[0], work=1)
    r.ok("format-sites-scanned", "-", "%d formatting call sites scanned for plaintext type arguments" % n, work=n)


STRINGY = re.compile(r"^(&|mut |core::option::Option<|alloc::borrow::Cow<|'_ |'static |alloc::vec::Vec<)*(str\b|alloc::string::String|alloc::vec::Vec<u8>|\[u8|secrecy::SecretBox|std::path::PathBuf|std::path::Path\b|serde_json::value::Value)")
# String-like values derived from a plaintext-typed value that are logged on
# purpose: (function, number of sites, reason).
LOGGED_DERIVED_OK = {
    "sos_client_storage::files::file_manager::ExternalFileManager::write_update_checksum":
        (4, "logs the source path chosen by the user for an attachment being imported and the SHA-256 name of the encrypted blob; no secret content"),
}


def r3b_no_derived_plaintext_in_logs(ctx):
    ws = ctx.ws
    r = ctx.rule("C03-R3b", "no string or byte value derived from a decrypted secret is passed to a log macro",
                 floor=1, kind="K4 taint")
    n = 0
    for f in ws.fns.values():
        if f.crate in idioms.TEST_CRATES:
            continue
        fg = None
        cnt = 0
        bodies = {x.path: x for x in f.bodies}
        for b, i, t in f.calls():
            if t.get("callee") not in ("tracing_core::field::display", "tracing_core::field::debug", "tracing::field::display", "tracing::field::debug"):
                continue
            T = (t.get("targs") or ["?"])[0]
            if not STRINGY.search(T):
                continue
            n += 1
            fg = fg or FlowGraph(ws, f)
            sl = fg.back_from_operand(b, t["args"][0])
            src = None
            for (bp, key) in sl.nodes:
                bb = bodies.get(bp)
                if bb is None or not isinstance(key, int):
                    continue
                ty = bb.locals[key]
                for p in PLAINTEXT:
                    if p in ty and "secrecy::SecretBox" != p:
                        src = (bb.vars.get(str(key)) or "_%d" % key, p)
            if src is None:
                continue
            k = "%s|logs-derived#%d" % (f.root, cnt)
            cnt += 1
            okn, reason = LOGGED_DERIVED_OK.get(f.root, (0, ""))
            if cnt <= okn:
                r.ok(k, cfg.loc(b, i), "tabled: " + reason, work=len(sl.nodes))
            else:
                r.violation(k, cfg.loc(b, i),
                            "a %s derived from `%s` (%s) is written to the log: decrypted material reaches the log file" % (T.replace("&", "").rsplit("::", 1)[-1], src[0], src[1].rsplit("::", 1)[-1]),
                            work=len(sl.nodes))
    r.ok("string-like-log-values", "-", "%d string/bytes-typed log field values traced back to their sources" % n, work=n)


def r4_external_files(ctx):
    ws = ctx.ws
    r = ctx.rule("C03-R4", "external files are written only as the age encryptor's output",
                 floor=2, kind="K4 value flow")
    fns = ws.find_fns(r"files::external_files::FileStorage::encrypt_file_passphrase$")
    if not fns:
        r.anchor_missing("FileStorage::encrypt_file_passphrase")
        return
    f = fns[0]
    body = cfg.code_body(ws, f)
    fg = FlowGraph(ws, f)
    ws_calls = [(i, t) for i, t in idioms.real_calls(body) if cname(t) in ("write_exclusive", "write", "write_all")]
    if not ws_calls:
        r.violation(f.root + "|writes", cfg.loc(body), "no write of the encrypted file found", work=1)
    for i, t in ws_calls:
        sl = fg.back_from_operand(body, t["args"][-1])
        enc = any(re.search(r"wrap_async_output|wrap_output", ct.get("callee") or "") for _b, _i, ct in sl.calls)
        k = "%s|written-buffer" % f.root
        if enc:
            r.ok(k, cfg.loc(body, i), "the buffer written is the one the age encryptor wrote into", work=len(sl.nodes))
        else:
            r.violation(k, cfg.loc(body, i), "the buffer written to the external file store does not come from the age encryptor", work=len(sl.nodes))
    enc_calls = [t for _i, t in idioms.real_calls(body) if re.search(r"Encryptor::with_user_passphrase", t.get("callee") or "")]
    if enc_calls:
        r.ok(f.root + "|passphrase-encryptor", cfg.loc(body), "age Encryptor::with_user_passphrase", work=1)
    else:
        r.violation(f.root + "|passphrase-encryptor", cfg.loc(body), "no age passphrase encryptor is created", work=1)


def r6_search_index_memory_only(ctx):
    ws = ctx.ws
    r = ctx.rule("C03-R6", "the search index (which holds labels and tags in the clear) is memory only",
                 floor=1, kind="K1 who-may-call")
    # SearchIndex / Document must not be an argument type of any fs/db/http call
    bad = 0
    n = 0
    SINK = re.compile(r"^(sos_vfs::|tokio::fs::|std::fs::|reqwest::|async_sqlite::|rusqlite::|sos_database::entity::)")
    for f in ws.fns.values():
        if f.crate in idioms.TEST_CRATES:
            continue
        for b, i, t in f.calls():
            c = t.get("callee") or ""
            if not SINK.search(c):
                continue
            n += 1
            if any(re.search(r"sos_search::search::(SearchIndex|Document)", x) for x in (t.get("targ_adts") or [])):
                bad += 1
                r.violation("%s|index-to-sink" % f.root, cfg.loc(b, i), "a search index value is passed to a storage/network call %s" % c, work=1)
    if not bad:
        r.ok("search-index|no-sink", "-", "no storage or network call is instantiated with SearchIndex/Document (%d sink calls scanned)" % n, work=n)


def run(ctx):
    ctx.explanation = (
        "Type-containment and provenance rules: (R1) the transitive field closure of every event type, vault/log "
        "storage type, wire message, sync payload, audit record, database row and archive manifest contains no "
        "plaintext-bearing or key-bearing type; (R2) AeadPack values are constructed only inside the three cipher "
        "modules (with the ciphertext field coming out of the AEAD / age encryptor) and in decoders, and every "
        "top-level binary/JSON encoding of a plaintext type is handed to a cipher in the same function unless the "
        "function is a tabled user-requested output; (R3) no plaintext type is formatted inside a log macro; (R4) "
        "external files are written from the age encryptor's buffer; (R6) the search index never reaches a storage or "
        "network call. Cipher strength and what users put into clear-text names are not decided.")
    ctx.trust("age passphrase encryption", "AEAD ciphers", "secrecy::SecretBox redacts Debug")
    r1_type_containment(ctx)
    r2_ciphertext_provenance(ctx)
    r3_no_plaintext_in_logs(ctx)
    r3b_no_derived_plaintext_in_logs(ctx)
    r4_external_files(ctx)
    r6_search_index_memory_only(ctx)
    # shared with C10-R3: what is stored in clear (salt, seed in the vault header) must never be
    # enough to derive the key — the password enters the KDF input on every path
    from . import c10
    c10.r3_key_derivation(ctx)
    ctx.rules[-1].id = "C03-R7"
    for inst in ctx.rules[-1].instances:
        inst["rule"] = "C03-R7"
        inst["key"] = inst["key"].replace("C10-R3|", "C03-R7|", 1)
