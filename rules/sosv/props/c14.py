"""C14 — Every stored and transmitted type survives encode/decode unchanged."""
import re
from collections import deque
from .. import cfg, idioms
from ..idioms import cname, last_seg

ENC = "binary_stream::futures::Encodable"
DEC = "binary_stream::futures::Decodable"

# Fields that an encoder reads but the decoder legitimately does not restore.
SKIP_FIELDS = {
}


def _first_after(body, start, pred, limit=40):
    """BFS from `start` for the first statement/terminator satisfying pred."""
    sc = cfg.succs(body)
    seen = set()
    dq = deque([start])
    n = 0
    while dq and n < limit:
        b = dq.popleft()
        if b in seen:
            continue
        seen.add(b)
        n += 1
        for s in body.blocks[b]["s"]:
            v = pred(s)
            if v is not None:
                return v
        for x in sc[b]:
            dq.append(x)
    return None


def enum_to_int(body):
    """variant -> integer for a `From<&Enum> for uN` body."""
    out = {}
    for es in cfg.enum_switches(body):
        for v, tgt in es.targets.items():
            def pred(s):
                if s.get("k") == "use" and s.get("ops"):
                    c = cfg.op_const(s["ops"][0])
                    if c is not None and "i" in c:
                        return int(c["i"])
                return None
            val = _first_after(body, tgt, pred)
            if val is not None and v not in out:
                out[v] = val
        if out:
            return out, es
    return out, None


def int_to_enum(body, enum_path):
    """integer -> variant for a `TryFrom<uN> for Enum` body."""
    out = {}
    for i in sorted(cfg.live_blocks(body)):
        t = body.blocks[i].get("term")
        if not t or t["k"] != "switch" or not re.match(r"u(8|16|32|64)$", t.get("dty") or ""):
            continue
        for val, tgt in t["vals"]:
            def pred(s):
                if s.get("k") == "agg" and s.get("adt") == enum_path:
                    return s["variant"]
                return None
            v = _first_after(body, tgt, pred)
            if v is not None:
                out[int(val)] = v
        if out:
            return out, t
    return out, None


def r3_tag_tables(ctx):
    ws = ctx.ws
    r = ctx.rule("C14-R3", "kind-tag tables are inverse bijections between encoder and decoder",
                 floor=5, kind="K5 sibling agreement (tables)")
    pairs = {}
    for i in ws.impls:
        tf = i.get("trait_full") or ""
        if i["crate"] in idioms.TEST_CRATES:
            continue
        m = re.match(r"<(u8|u16|u32|u64) as core::convert::From<&?([\w:]+)>>$", tf)
        if m and i.get("trait") == "core::convert::From" and m.group(2) in ws.adts and ws.adts[m.group(2)]["kind"] == "Enum":
            pairs.setdefault(m.group(2), {}).setdefault("to_int", []).append(i)
        m = re.match(r"<([\w:]+) as core::convert::TryFrom<(u8|u16|u32|u64)>>$", tf)
        if m and i.get("trait") == "core::convert::TryFrom" and m.group(1) in ws.adts and ws.adts[m.group(1)]["kind"] == "Enum":
            pairs.setdefault(m.group(1), {}).setdefault("to_enum", []).append(i)
    for enum, d in sorted(pairs.items()):
        if "to_int" not in d or "to_enum" not in d:
            continue
        variants = [v["name"] for v in ws.adts[enum]["variants"]]
        ti = None
        for imp in d["to_int"]:
            f = ws.fns.get(imp["items"][0]["path"]) if imp["items"] else None
            if f:
                m, _es = enum_to_int(cfg.code_body(ws, f))
                if m and (ti is None or len(m) > len(ti[0])):
                    ti = (m, f)
        te = None
        for imp in d["to_enum"]:
            for it in imp["items"]:
                f = ws.fns.get(it["path"])
                if f and it["name"] == "try_from":
                    m, _t = int_to_enum(cfg.code_body(ws, f), enum)
                    te = (m, f)
        if ti is None or te is None or not ti[0] or not te[0]:
            r.violation(enum + "|tables", "-", "could not extract both tag tables of %s (encoder: %s, decoder: %s)" % (
                enum, bool(ti and ti[0]), bool(te and te[0])), work=1)
            continue
        to_int, f_int = ti
        to_enum, f_enum = te
        where = cfg.loc(f_int.main)
        # injective
        inv = {}
        for v, n in to_int.items():
            inv.setdefault(n, []).append(v)
        dups = {n: vs for n, vs in inv.items() if len(vs) > 1}
        if dups:
            r.violation(enum + "|injective", where, "two variants of %s share a tag: %s" % (enum, dups), work=len(to_int))
        else:
            r.ok(enum + "|injective", where, "%d variants, distinct tags" % len(to_int), work=len(to_int))
        for v in variants:
            k = "%s|roundtrip:%s" % (enum, v)
            if v not in to_int:
                r.violation(k, where, "variant %s::%s has no tag in the encoder table" % (enum, v), work=1)
                continue
            n = to_int[v]
            back = to_enum.get(n)
            if back == v:
                r.ok(k, where, "%s <-> %d" % (v, n), work=1)
            elif back is None:
                r.violation(k, cfg.loc(f_enum.main), "tag %d written for %s::%s is not accepted by the decoder table" % (n, enum, v), work=1)
            else:
                r.violation(k, cfg.loc(f_enum.main), "tag %d written for %s::%s decodes to %s" % (n, enum, v, back), work=1)
        extra = {n: v for n, v in to_enum.items() if to_int.get(v) != n}
        for n, v in extra.items():
            r.violation("%s|decoder-extra:%d" % (enum, n), cfg.loc(f_enum.main), "decoder maps tag %d to %s but the encoder writes %s for it" % (n, v, to_int.get(v)), work=1)


def r1_wire_grammar(ctx):
    from .. import grammar
    ws = ctx.ws
    r = ctx.rule("C14-R1", "encoder and decoder of every binary type walk the same sequence of primitives and nested types on every path",
                 floor=28, kind="K5 sibling agreement (path languages of the two CFGs)")
    encs, decs = {}, {}
    for i in ws.impls_of(ENC):
        for it in i["items"]:
            if it["name"] == "encode" and it["path"] in ws.fns:
                encs[i["self_ty"]] = ws.fns[it["path"]]
    for i in ws.impls_of(DEC):
        for it in i["items"]:
            if it["name"] == "decode" and it["path"] in ws.fns:
                decs[i["self_ty"]] = ws.fns[it["path"]]
    for ty in sorted(set(encs) & set(decs)):
        try:
            eq, only_e, only_d, (ne, nd) = grammar.compare(ws, encs[ty], decs[ty])
        except grammar.TooComplex:
            r.note("%s: more than %d paths, not compared" % (ty, grammar.MAX_SET))
            continue
        where = cfg.loc(decs[ty].main)
        if eq:
            r.ok(ty + "|grammar", where, "%d encoder path(s) == %d decoder path(s)" % (ne, nd), work=ne + nd)
        else:
            def show(seqs):
                return "; ".join(" ".join(x.replace("N:", "").rsplit("::", 1)[-1] for x in s) or "(nothing)" for s in seqs[:2])
            what = []
            if only_e:
                what.append("written but never read that way: [%s]" % show(only_e))
            if only_d:
                what.append("read but never written that way: [%s]" % show(only_d))
            r.violation(ty + "|grammar", where,
                        "encode and decode of %s disagree on the byte layout on some path — %s" % (ty.rsplit("::", 1)[-1], " / ".join(what)),
                        work=ne + nd)
    r.note("%d types with both impls; decode-only types: %s" % (len(set(encs) & set(decs)), sorted(x.rsplit("::", 1)[-1] for x in set(decs) - set(encs))))
    # field-order agreement: position k written from field f must be stored into field f
    adt_of = {}
    for i in ws.impls_of(ENC):
        if i.get("self_adt"):
            adt_of[i["self_ty"]] = i["self_adt"]
    for ty in sorted(set(encs) & set(decs)):
        if ty not in adt_of:
            continue
        try:
            conflicts, annotated, nea, nda = grammar.compare_fields(ws, encs[ty], decs[ty], adt_of[ty])
        except grammar.TooComplex:
            continue
        if not nea or not nda:
            continue
        where = cfg.loc(decs[ty].main)
        if conflicts:
            pos = conflicts[0][0]
            r.violation(ty + "|field-order", where,
                        "encode writes field `%s` at position %d (%s) of %s but decode stores that position into `%s`: two fields are swapped on the wire" % (
                            pos[2], pos[0], pos[1].replace("N:", "").rsplit("::", 1)[-1], ty.rsplit("::", 1)[-1], pos[3]),
                        work=annotated)
        else:
            r.ok(ty + "|field-order", where, "%d written / %d read positions carry a field; all agree" % (nea, nda), work=annotated)


# Variants an encoder has an arm for but no decoder may produce, with the reason.
UNDECODABLE_VARIANTS = {
    ("sos_core::events::write::WriteEvent", "Noop"): "placeholder; decoding it is an error by design",
    ("sos_core::events::account::AccountEvent", "Noop"): "placeholder; decoding it is an error by design",
    ("sos_core::events::device::DeviceEvent", "Noop"): "placeholder; decoding it is an error by design",
    ("sos_core::events::file::FileEvent", "Noop"): "placeholder; decoding it is an error by design",
}


def r6_variant_coverage(ctx):
    ws = ctx.ws
    r = ctx.rule("C14-R6", "every enum variant an encoder writes can be produced by a decoder",
                 floor=8, kind="K5 sibling agreement (variant sets)")
    # variants constructed by any decoder (or a helper in a decoder's crate)
    constructed = {}
    dec_fns = []
    for i in ws.impls_of(DEC):
        for it in i["items"]:
            if it["name"] == "decode" and it["path"] in ws.fns:
                dec_fns.append(ws.fns[it["path"]])
    extra = [f for f in ws.fns.values() if re.search(r"::encoding::", f.root) and "BinaryReader" in " ".join(f.meta.get("inputs") or [])]
    for f in dec_fns + extra:
        for b in f.bodies:
            for j in cfg.live_blocks(b):
                for s in b.blocks[j]["s"]:
                    if s.get("k") == "agg" and s.get("ak") == "adt" and s["adt"] in ws.adts and ws.adts[s["adt"]]["kind"] == "Enum":
                        constructed.setdefault(s["adt"], set()).add(s["variant"])
    # TryFrom<uN> tables also construct unit variants for decoders
    for f in ws.fns.values():
        if re.search(r"core::convert::TryFrom<u(8|16|32|64)>>::try_from$", f.root):
            for b in f.bodies:
                for blk in b.blocks:
                    for s in blk["s"]:
                        if s.get("k") == "agg" and s.get("ak") == "adt" and s["adt"] in ws.adts:
                            constructed.setdefault(s["adt"], set()).add(s["variant"])
    n = 0
    for i in ws.impls_of(ENC):
        for it in i["items"]:
            if it["name"] != "encode" or it["path"] not in ws.fns:
                continue
            f = ws.fns[it["path"]]
            seen = set()
            for b in f.bodies:
                for es in cfg.enum_switches(b):
                    if not es.enum or es.enum not in ws.adts or es.enum in seen:
                        continue
                    if ws.adts[es.enum]["crate"] in idioms.TEST_CRATES:
                        continue
                    variants = [v["name"] for v in ws.adts[es.enum]["variants"]]
                    if len(variants) < 2 or len(es.targets) < 2:
                        continue
                    seen.add(es.enum)
                    n += 1
                    have = constructed.get(es.enum, set())
                    missing = [v for v in es.targets if v not in have and (es.enum, v) not in UNDECODABLE_VARIANTS]
                    # a decoder that goes through serde/TryFrom<String> etc. constructs nothing visibly: skip enums never constructed by decoders at all
                    key = "%s|written-by:%s" % (es.enum, idioms.last_seg(f.root) if False else i["self_ty"].rsplit("::", 1)[-1])
                    if not have:
                        r.note("%s: no decoder constructs this enum directly (decoded through another mechanism)" % es.enum)
                        continue
                    if missing:
                        r.violation(key, cfg.loc(b, es.block),
                                    "the encoder of %s writes variant(s) %s of %s but no decoder ever constructs them: such values are lost or mis-read on decode" % (
                                        i["self_ty"].rsplit("::", 1)[-1], missing, es.enum.rsplit("::", 1)[-1]), work=len(variants))
                    else:
                        r.ok(key, cfg.loc(b, es.block), "all %d written variants of %s are constructed by decoders" % (len(es.targets), es.enum.rsplit("::", 1)[-1]), work=len(variants))
    if n < 8:
        r.anchor_missing("encoders that match on an enum (found %d)" % n)


# Fields of a binding type that are deliberately not transmitted.
WIRE_SKIP = {
    ("sos_sync::types::MergeOutcome", "external_files"): "local bookkeeping of file transfers computed after a merge; not part of the wire message",
}


def r7_wire_bindings(ctx):
    ws = ctx.ws
    r = ctx.rule("C14-R7", "protobuf bindings copy every field in both directions",
                 floor=40, kind="K5 sibling agreement (field sets)")
    pairs = {}
    for i in ws.impls:
        if i["crate"] != "sos_protocol" or i.get("trait") not in ("core::convert::From", "core::convert::TryFrom"):
            continue
        tf = i.get("trait_full") or ""
        m = re.match(r"<([\w:<>, ]+) as core::convert::(From|TryFrom)<([\w:<>, &]+)>>$", tf)
        if not m:
            continue
        dst, kind, src = m.group(1), m.group(2), m.group(3)
        if "Wire" in dst.rsplit("::", 1)[-1] and kind == "From":
            pairs.setdefault((src, dst), {})["to_wire"] = i
        if "Wire" in src.rsplit("::", 1)[-1] and kind == "TryFrom":
            pairs.setdefault((dst, src), {})["from_wire"] = i
    n = 0
    for (t, w), d in sorted(pairs.items()):
        if "to_wire" not in d or "from_wire" not in d:
            continue
        tb, wb = re.sub(r"<.*", "", t), re.sub(r"<.*", "", w)
        ta, wa = ws.adts.get(tb), ws.adts.get(wb)
        if not ta or not wa or wa["kind"] != "Struct":
            continue
        n += 1
        wfields = [f["name"] for f in wa["variants"][0]["fields"]]
        fw = next((ws.fns.get(it["path"]) for it in d["from_wire"]["items"] if it["name"] == "try_from"), None)
        tw = next((ws.fns.get(it["path"]) for it in d["to_wire"]["items"] if it["name"] == "from"), None)
        if not fw or not tw:
            continue
        rd, _w = idioms.fields_touched(ws, fw, wb)
        # destructuring `let WireX { a, b } = value` shows as reads too
        missing = [f for f in wfields if f not in rd]
        key = "%s<->%s" % (tb.rsplit("::", 1)[-1], wb.rsplit("::", 1)[-1])
        if missing and len(wfields) > 1:
            r.violation(key + "|from-wire", cfg.loc(fw.main), "TryFrom<%s> never reads wire field(s) %s: they are dropped when a message is received" % (wb.rsplit("::", 1)[-1], missing), work=len(wfields))
        else:
            r.ok(key + "|from-wire", cfg.loc(fw.main), "reads %s" % sorted(rd & set(wfields)), work=len(wfields))
        if ta["kind"] == "Struct":
            tfields = [f["name"] for f in ta["variants"][0]["fields"]]
            rd2, _w2 = idioms.fields_touched(ws, tw, tb)
            getters = {cname(t2) for _b, _i, t2 in tw.calls()}
            miss2 = [f for f in tfields if f not in rd2 and f not in getters and (tb, f) not in WIRE_SKIP and not f.isdigit()]
            if miss2:
                r.violation(key + "|to-wire", cfg.loc(tw.main), "From<%s> for the wire type never reads field(s) %s: they are not transmitted" % (tb.rsplit("::", 1)[-1], miss2), work=len(tfields))
            else:
                r.ok(key + "|to-wire", cfg.loc(tw.main), "reads %s" % sorted(rd2 & set(tfields)), work=len(tfields))
    if n < 25:
        r.anchor_missing("From/TryFrom pairs of protobuf bindings (found %d)" % n)


_STD = re.compile(r"^(core::|std::|alloc::)")


def r8_enum_conversions_inverse(ctx):
    """Variant-to-variant tables of every pair of enum conversions (domain
    enum <-> wire oneof) extracted from the match arms are mutually inverse."""
    ws = ctx.ws
    r = ctx.rule("C14-R8", "enum conversions to and from the wire types map variants inversely",
                 floor=20, kind="K6 arm tables, sibling agreement")
    maps, where = {}, {}
    for root, fn in sorted(ws.fns.items()):
        if fn.crate in idioms.TEST_CRATES or idioms.last_seg(root) not in ("from", "try_from", "into", "try_into"):
            continue
        for b in fn.bodies:
            for es in cfg.enum_switches(b):
                if not es.enum or _STD.match(es.enum):
                    continue
                for v, blocks in idioms.arm_regions(b, es).items():
                    if v == "_":
                        continue
                    for i in blocks:
                        for st in b.blocks[i]["s"]:
                            if st.get("k") != "agg" or not st.get("adt") or st["adt"] == es.enum or _STD.match(st["adt"]) or st.get("variant") is None:
                                continue
                            a = ws.adts.get(st["adt"])
                            if a and a["kind"] == "Enum":
                                maps.setdefault((es.enum, st["adt"]), {}).setdefault(v, set()).add(st["variant"])
                                where.setdefault((es.enum, st["adt"], v), cfg.loc(b, i))
    n = 0
    for (s_, t_), fwd in sorted(maps.items()):
        rev = maps.get((t_, s_))
        if rev is None:
            continue
        for v, ts in sorted(fwd.items()):
            for t in sorted(ts):
                if t not in rev:
                    continue   # the other direction handles that variant some other way (nested message, integer tag)
                n += 1
                k = "%s::%s->%s::%s" % (s_, v, t_, t)
                if v in rev[t]:
                    r.ok(k, where[(s_, t_, v)], "and back: %s::%s -> %s" % (last_seg(t_), t, sorted(rev[t])), work=2)
                else:
                    r.violation(k, where.get((t_, s_, t), where[(s_, t_, v)]),
                                "%s::%s is converted to %s::%s, but the reverse conversion turns %s::%s into %s: the value does not survive the round trip" % (
                                    last_seg(s_), v, last_seg(t_), t, last_seg(t_), t, sorted(rev[t])), work=2)
    if n < 30:
        r.anchor_missing("bidirectional enum conversion arms (found %d, 38 on the pinned tree)" % n)


def _deref_place(body, place, defs, depth=0):
    """Canonical place an operand/place refers to: follows a single `ref`/copy
    definition of a temporary back to the place it borrows."""
    l = cfg.place_local(place)
    ds = defs.get(l, [])
    if depth < 6 and len(ds) == 1 and not ds[0][2]:
        st = ds[0][1]
        rest = place[len(str(l)):]
        if st.get("k") in ("ref", "refmut") and rest in ("", ".*"):
            return _deref_place(body, st["p"], defs, depth + 1) if rest == ".*" or rest == "" else place
        if st.get("k") == "use" and rest == "":
            p_ = cfg.op_place(st["ops"][0])
            if p_:
                return _deref_place(body, p_, defs, depth + 1)
    return place


def r9_presence_flags(ctx):
    """`write_bool(x.is_some())` followed by `if let Some(v) = y { v.encode() }`
    must test the same Option (x == y): otherwise the decoder, which reads the
    flag and then the payload, gets out of step for some values."""
    ws = ctx.ws
    r = ctx.rule("C14-R9", "a presence flag and the optional payload that follows it test the same Option",
                 floor=19, kind="K4 place identity along the CFG")
    n = 0
    for root, fn in sorted(ws.fns.items()):
        if fn.crate in idioms.TEST_CRATES or not any(cname(t) == "write_bool" for _b, _i, t in fn.calls()):
            continue
        body = cfg.code_body(ws, fn)
        live = cfg.live_blocks(body)
        defs = cfg.defs_of(body)
        sc = cfg.succs(body)
        idx = 0
        for i, t in idioms.real_calls(body, live):
            if cname(t) != "write_bool" or len(t["args"]) < 2:
                continue
            ap = cfg.op_place(t["args"][1])
            if ap is None:
                continue
            org = idioms.origin_calls(body, ap)
            tests = [body.blocks[b]["term"] for b in org if cname(body.blocks[b]["term"]) in ("is_some", "is_none")
                     and "option::Option" in (body.blocks[b]["term"].get("callee") or "")]
            if len(org) != 1 or len(tests) != 1:
                continue
            p1 = cfg.op_place(tests[0]["args"][0])
            if p1 is None:
                continue
            k1 = _deref_place(body, p1, defs)
            if k1.endswith(".*") and not p1.endswith(".*"):
                pass
            # first Option switch after the flag, not beyond the next write_bool
            seen, dq, found = {i}, deque(sc[i]), None
            while dq and found is None:
                b = dq.popleft()
                if b in seen or b not in live:
                    continue
                seen.add(b)
                es = cfg.enum_switch(body, b)
                if es and es.enum == "core::option::Option":
                    found = es
                    break
                tt = body.blocks[b].get("term") or {}
                if tt.get("k") == "call" and cname(tt) in ("write_bool",) and not idioms.is_noise(tt):
                    continue
                dq.extend(sc[b])
            if found is None:
                continue
            n += 1
            idx += 1
            k2 = _deref_place(body, found.place, defs)
            norm = lambda p_: re.sub(r"\.\*$", "", p_)

            def nm(p_):
                q = norm(p_)
                for cand in (q, q + ".*"):
                    if body.vars.get(cand):
                        return body.vars[cand]
                fs = cfg.place_fields(q)
                return (body.var_name(cfg.place_local(q)) or "_%d" % cfg.place_local(q)) + ("." + ".".join(fs) if fs else "")
            key = "%s|flag#%d" % (fn.root, idx)
            if norm(k1) == norm(k2):
                r.ok(key, cfg.loc(body, i), "flag and payload both test %s" % nm(k1), work=len(seen))
            else:
                r.violation(key, cfg.loc(body, i),
                            "the presence flag written here tests `%s` but the optional payload that follows is `%s`: when only one of the two is set the decoder reads a flag that does not match the bytes" % (
                                nm(k1), nm(k2)),
                            work=len(seen))
    if n < 19:
        r.anchor_missing("presence-flag sites in encoders (found %d, 19 on the pinned tree)" % n)


def _self_fields(ws, adt_path):
    adt = ws.adts.get(adt_path)
    if not adt or adt["kind"] != "Struct":
        return None
    return [f["name"] for f in adt["variants"][0]["fields"]]


def r2_field_coverage(ctx):
    ws = ctx.ws
    r = ctx.rule("C14-R2", "every field an encoder writes is restored by the decoder",
                 floor=15, kind="K5 sibling agreement (field sets)")
    encs = {i.get("self_adt"): i for i in ws.impls_of(ENC) if i.get("self_adt")}
    decs = {i.get("self_adt"): i for i in ws.impls_of(DEC) if i.get("self_adt")}
    n = 0
    for adt_path in sorted(set(encs) & set(decs)):
        fields = _self_fields(ws, adt_path)
        if not fields:
            continue
        ef = ws.fns.get(next((it["path"] for it in encs[adt_path]["items"] if it["name"] == "encode"), None))
        df = ws.fns.get(next((it["path"] for it in decs[adt_path]["items"] if it["name"] == "decode"), None))
        if not ef or not df:
            continue
        n += 1
        e_reads, _w = idioms.fields_touched(ws, ef, adt_path)
        _r, d_writes = idioms.fields_touched(ws, df, adt_path)
        # `*self = Self { .. }` style: an aggregate of the type restores its fields
        for b in df.bodies:
            for blk in b.blocks:
                for s in blk["s"]:
                    if s.get("k") == "agg" and s.get("adt") == adt_path:
                        d_writes |= set(s.get("fields") or [])
        # fields handed as &mut to a nested decode/read helper count as written
        for b in df.bodies:
            for blk in b.blocks:
                for s in blk["s"]:
                    if s.get("k") == "refmut" and s.get("p"):
                        for fn_ in cfg.place_fields(s["p"]):
                            if fn_ in fields:
                                d_writes.add(fn_)
        missing = [f for f in fields if f in e_reads and f not in d_writes and (adt_path, f) not in SKIP_FIELDS]
        # tuple structs use numeric field names: same treatment
        if missing:
            for f in missing:
                r.violation("%s|decode-restores:%s" % (adt_path, f), cfg.loc(df.main),
                            "%s::encode writes field `%s` but decode never stores it: the value does not survive a round trip" % (adt_path.rsplit("::", 1)[-1], f),
                            work=len(fields))
        else:
            r.ok("%s|fields" % adt_path, cfg.loc(df.main), "encode reads %s; decode restores them" % sorted(e_reads), work=len(fields))
    if n < 10:
        r.anchor_missing("struct types with both Encodable and Decodable (found %d)" % n)


def r4_determinism(ctx):
    ws = ctx.ws
    r = ctx.rule("C14-R4", "types hashed into commits contain no hash-ordered collection",
                 floor=4, kind="K7 type containment")
    roots = ["sos_core::events::write::WriteEvent", "sos_core::events::account::AccountEvent",
             "sos_core::events::device::DeviceEvent", "sos_core::events::file::FileEvent",
             "sos_core::events::record::EventRecord", "sos_core::vault::VaultCommit", "sos_core::crypto::AeadPack"]
    bad_rx = re.compile(r"std::collections::hash::(map::HashMap|set::HashSet)")
    for root in roots:
        if root not in ws.adts:
            alt = [a for a in ws.adts if a.endswith("::" + root.rsplit("::", 1)[-1])]
            if not alt:
                continue
            root = alt[0]
        seen = set()
        stack = [(root, [root])]
        found = None
        while stack:
            a, path = stack.pop()
            if a in seen:
                continue
            seen.add(a)
            adt = ws.adts.get(a)
            if not adt:
                continue
            for v in adt["variants"]:
                for f in v["fields"]:
                    if bad_rx.search(f["ty"]):
                        found = path + ["%s.%s: %s" % (a.rsplit("::", 1)[-1], f["name"], f["ty"][:60])]
                    for x in f["adts"]:
                        if x in ws.adts and x not in seen:
                            stack.append((x, path + [x]))
        k = root + "|no-hash-collections"
        if found:
            r.violation(k, "-", "a HashMap/HashSet is part of a type whose encoding is hashed into commits: iteration order makes the encoding non-deterministic (%s)" % " -> ".join(found), work=len(seen))
        else:
            r.ok(k, "-", "closure of %d types has no HashMap/HashSet" % len(seen), work=len(seen))


def r5_db_row_mapping(ctx):
    ws = ctx.ws
    r = ctx.rule("C14-R5", "event rows are built from and converted back to the same record parts",
                 floor=2, kind="K5")
    new = ws.find_fns(r"^sos_database::entity::event::EventRecordRow::new$")
    back = [f for f in ws.fns.values() if "TryFrom<sos_database::entity::event::EventRecordRow>" in f.root and f.root.endswith("try_from")]
    if not new or not back:
        r.anchor_missing("EventRecordRow::new / TryFrom<EventRecordRow> for EventRecord")
        return
    names = {cname(t) for _b, _i, t in new[0].calls() if not idioms.is_noise(t)}
    need = {"time", "commit", "event_bytes"}
    miss = need - names
    if miss:
        r.violation(new[0].root + "|reads", cfg.loc(new[0].main), "EventRecordRow::new does not read %s of the record" % sorted(miss), work=1)
    else:
        r.ok(new[0].root + "|reads", cfg.loc(new[0].main), "row built from record.time(), commit(), event_bytes()", work=1)
    rd, _w = idioms.fields_touched(ws, back[0], "sos_database::entity::event::EventRecordRow")
    need2 = {"created_at", "commit_hash", "event_bytes"} & set(_self_fields(ws, "sos_database::entity::event::EventRecordRow") or [])
    miss2 = need2 - rd
    k = back[0].root + "|reads"
    if miss2:
        r.violation(k, cfg.loc(back[0].main), "record conversion ignores row column(s) %s" % sorted(miss2), work=1)
    else:
        r.ok(k, cfg.loc(back[0].main), "record rebuilt from %s" % sorted(rd), work=1)

    # the text form of the timestamp: the writer's formatter and the reader's
    # parser are an inverse pair (tabled), so the record comes back with the
    # time it was appended with
    PAIRS = {"to_rfc3339": "parse_rfc3339"}
    def dt_calls(fn):
        out = []
        for b, i, t in fn.calls():
            full = t.get("resolved_full") or t.get("callee_full") or t.get("callee") or ""
            if "date_time::UtcDateTime::" in full or "OffsetDateTime::" in full:
                out.append((cname(t), b, i))
        return out
    w = [(n, b, i) for n, b, i in dt_calls(new[0]) if n in ("to_rfc3339", "format", "to_string", "to_date", "to_date_time", "unix_timestamp")]
    rdr = [(n, b, i) for n, b, i in dt_calls(back[0]) if n.startswith("parse") or n.startswith("from_")]
    k = new[0].root + "|time-text-inverse"
    wn, rn = {n for n, _b, _i in w}, {n for n, _b, _i in rdr}
    if not w or not rdr:
        r.anchor_missing("timestamp formatter in EventRecordRow::new / parser in the conversion back")
    elif len(wn) == 1 and len(rn) == 1 and PAIRS.get(next(iter(wn))) == next(iter(rn)):
        r.ok(k, cfg.loc(w[0][1], w[0][2]), "written with %s, parsed with %s" % (sorted(wn), sorted(rn)), work=2)
    else:
        r.violation(k, cfg.loc(w[0][1], w[0][2]),
                    "the event row's timestamp is written with %s but read back with %s, which is not a tabled inverse pair: a record does not come back from the database with the time it was appended with" % (sorted(wn), sorted(rn)),
                    work=2)


INT_BITS = {"i8": 8, "i16": 16, "i32": 32, "i64": 64, "i128": 128, "isize": 64,
            "u8": 8, "u16": 16, "u32": 32, "u64": 64, "u128": 128, "usize": 64}
NON_NEGATIVE = {"rem_euclid", "unsigned_abs", "abs", "checked_rem_euclid", "wrapping_rem_euclid"}


def r10_encoder_casts(ctx):
    """An encoder never squeezes a signed quantity into a narrower unsigned
    field with `as`: negative values wrap and the decoder cannot undo it."""
    ws = ctx.ws
    r = ctx.rule("C14-R10", "no encoder casts a signed integer to a narrower unsigned one",
                 floor=15, kind="K6 lossy-cast")
    for f in ws.fns.values():
        if not re.search(r"Encodable for .*>::encode$", f.root):
            continue
        for b in f.bodies:
            defs = None
            n = 0
            for bi, blk in enumerate(b.blocks):
                if blk.get("cleanup"):
                    continue
                for st in blk["s"]:
                    if st["k"] != "cast" or st.get("ck") != "IntToInt":
                        continue
                    n += 1
                    op = st["ops"][0]
                    src = None
                    if isinstance(op, str):
                        m = re.match(r"[mc]?_?(\d+)$", op)
                        if m and int(m.group(1)) < len(b.locals):
                            src = b.locals[int(m.group(1))]
                    dst = st.get("ty")
                    k = "%s|cast#%d:%s->%s" % (f.root, n, src, dst)
                    where = "%s:%s" % (b.file, st.get("l"))
                    if src in INT_BITS and dst in INT_BITS and src.startswith("i") and dst.startswith("u") and INT_BITS[dst] < INT_BITS[src]:
                        if defs is None:
                            defs = cfg.defs_of(b)
                        tree = repr(idioms.expr_tree(b, op, defs))
                        if any(x in tree for x in NON_NEGATIVE):
                            r.ok(k, where, "operand is non-negative by construction", work=1)
                        else:
                            r.violation(k, where,
                                        "the encoder casts a signed %s to %s with `as`: a negative value wraps (e.g. a remainder of a pre-epoch timestamp) and the decoder reads back a different value" % (src, dst),
                                        work=1)
                    else:
                        r.ok(k, where, "cast %s -> %s keeps the sign domain" % (src, dst), work=1)


def run(ctx):
    ctx.explanation = (
        "Sibling-agreement rules between every encoder and its decoder: (R1) for each type with Encodable and Decodable "
        "impls the set of token sequences (primitive writes/reads and nested codecs, helpers inlined, loops unrolled "
        "0..2 times, error exits pruned) along every successful path of encode equals that of decode; (R2) for each struct with Encodable and "
        "Decodable impls, the fields the encoder reads are stored by the decoder; (R3) for each enum with a "
        "From<&T> for uN / TryFrom<uN> for T pair the variant→tag and tag→variant tables extracted from the match arms "
        "are inverse and injective over all variants; (R4) no HashMap/HashSet inside types whose encoding is hashed "
        "into commits; (R5) event rows map to and from the same record parts; (R8) the variant tables of every pair of enum conversions (domain enum <-> protobuf oneof) are mutually inverse; (R9) every presence flag written by an encoder tests the same Option as the optional payload that follows it; (R10) no encoder casts a signed integer to a narrower unsigned one; (R5 also) the event row's timestamp is written and parsed by a tabled inverse pair. Decides shape/field/tag agreement in "
        "every branch; value equality (timestamp precision etc.) is not decided.")
    ctx.trust("binary_stream primitive readers/writers are mutually inverse", "prost encode/decode are mutually inverse")
    r1_wire_grammar(ctx)
    r2_field_coverage(ctx)
    r3_tag_tables(ctx)
    r4_determinism(ctx)
    r5_db_row_mapping(ctx)
    r6_variant_coverage(ctx)
    r7_wire_bindings(ctx)
    r8_enum_conversions_inverse(ctx)
    r9_presence_flags(ctx)
    r10_encoder_casts(ctx)
