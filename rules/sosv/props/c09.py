"""C09 — Concurrent syncs from several devices are safe in every interleaving."""
import re
from .. import cfg, idioms
from ..flow import FlowGraph
from ..idioms import cname
from . import c04

HELPERS_MUT = {"event_patch", "sync_account"}
HELPER_RX = re.compile(r"^sos_server_storage::server_helpers::(\w+)$")
ACQ = re.compile(r"^tokio::sync::(rwlock::RwLock|mutex::Mutex)::<.*>::(read|write|lock|read_owned|write_owned|lock_owned)$")
READ_HANDLERS = {"sync_status", "event_scan", "event_diff", "fetch_account", "account_exists"}
LOCK_CRATES = {"sos_server", "sos_server_storage", "sos_backend", "sos_remote_sync", "sos_net", "sos_client_storage", "sos_account"}


def _protected(t):
    m = re.match(r"^tokio::sync::(?:rwlock::RwLock|mutex::Mutex)::<(.*)>::(\w+)$", t.get("callee_full") or "")
    if not m:
        return None, None
    ty = m.group(1)
    ty = re.sub(r"<.*", "", ty)  # type constructor only
    return ty, m.group(2)


def r1_one_critical_section(ctx):
    ws = ctx.ws
    r = ctx.rule("C09-R1", "each mutating server request runs one helper call under one write guard of the account; helpers need &mut storage",
                 floor=4, kind="K10 lock scope + K11 signature")
    hs = ws.find_fns(r"^sos_server::handlers::account::handlers::\w+$")
    if len(hs) < 8:
        r.anchor_missing("inner account handlers (found %d)" % len(hs))
    for f in hs:
        body = cfg.code_body(ws, f)
        live = cfg.live_blocks(body)
        helpers = [(i, t, HELPER_RX.match(t.get("callee") or "").group(1)) for i, t in idioms.real_calls(body, live) if HELPER_RX.match(t.get("callee") or "")]
        mut = [(i, t, n) for i, t, n in helpers if n in HELPERS_MUT]
        if not mut:
            continue
        acq_w = []
        for i, t in idioms.real_calls(body, live):
            ty, mode = _protected(t)
            if ty and "ServerStorage" in ty and mode == "write":
                acq_w.append(i)
        k = f.root + "|one-helper"
        if len(mut) != 1:
            r.violation(k, cfg.loc(body), "%d mutating helper calls in one request handler: rewind/patch or merge/diff are no longer one atomic step" % len(mut), work=len(live))
            continue
        mi, mt, mn = mut[0]
        if len(acq_w) != 1:
            r.violation(k, cfg.loc(body, mi), "the handler takes the account write lock %d times around %s (expected once)" % (len(acq_w), mn), work=len(live))
            continue
        # the helper's storage argument derives from that write guard
        fg = FlowGraph(ws, f)
        ok = False
        for a in mt["args"]:
            sl = fg.back_from_operand(body, a)
            if any(cb is body and ci == acq_w[0] for cb, ci, _t in sl.calls):
                ok = True
        if ok and mi in cfg.reach_after(body, acq_w[0]):
            r.ok(k, cfg.loc(body, mi), "%s runs once, on the storage behind the single account.write() guard" % mn, work=len(live))
        else:
            r.violation(k, cfg.loc(body, mi), "%s is not given the storage behind the account write guard" % mn, work=len(live))
    for n in sorted(HELPERS_MUT):
        h = ws.fn("sos_server_storage::server_helpers::" + n)
        k = "sos_server_storage::server_helpers::%s|needs-mut-storage" % n
        if not h:
            r.violation(k, "-", "server helper %s not found" % n, work=0)
            continue
        ins = h.meta.get("inputs") or []
        if any(x.startswith("&mut ") for x in ins):
            r.ok(k, cfg.loc(h.main), "takes %s: cannot be called through a read guard" % [x for x in ins if x.startswith("&mut ")], work=1)
        else:
            r.violation(k, cfg.loc(h.main), "%s no longer requires exclusive (&mut) access to the storage" % n, work=1)


def r3_readers_take_read_guards(ctx):
    ws = ctx.ws
    r = ctx.rule("C09-R3", "read-only request handlers never take the account write lock",
                 floor=4, kind="K10")
    for f in ws.find_fns(r"^sos_server::handlers::account::handlers::\w+$"):
        n = f.meta.get("name")
        if n not in READ_HANDLERS:
            continue
        body = cfg.code_body(ws, f)
        w = []
        for i, t in idioms.real_calls(body):
            ty, mode = _protected(t)
            if ty and mode == "write" and "ServerStorage" in ty:
                w.append(i)
        k = f.root + "|read-only"
        if w:
            r.violation(k, cfg.loc(body, w[0]), "read handler %s takes the account write lock: it serialises (and can starve) concurrent syncs" % n, work=1)
        else:
            r.ok(k, cfg.loc(body), "no write guard on the account", work=1)


def _held_analysis(body):
    """For each acquisition call block: set of guard types that may be held."""
    guard_locals = {}
    for l, ty in enumerate(body.locals):
        m = re.search(r"(RwLockWriteGuard|RwLockReadGuard|MutexGuard|OwnedRwLock\w+Guard|OwnedMutexGuard)<(?:'_, )?(.*)>$", ty)
        if m and not ty.startswith("&") and "Option<" not in ty and "Poll<" not in ty and "Result<" not in ty:
            inner = re.sub(r"<.*", "", m.group(2))
            guard_locals[l] = ("W:" if "Write" in m.group(1) or "Mutex" in m.group(1) else "R:") + inner
    if not guard_locals:
        return []
    sc = cfg.succs(body)
    n = len(body.blocks)
    gen = [set() for _ in range(n)]
    kill = [set() for _ in range(n)]
    for i, blk in enumerate(body.blocks):
        for s in blk["s"]:
            d = s.get("d")
            if s.get("k") == "dead":
                l = int(d)
                if l in guard_locals:
                    kill[i].add(l)
                    gen[i].discard(l)
                continue
            if d is not None and "." not in d and int(d) in guard_locals and s.get("k") in ("use",):
                gen[i].add(int(d))
                kill[i].discard(int(d))
                src = cfg.op_place(s["ops"][0]) if s.get("ops") else None
                if src and "." not in src and int(src) in guard_locals and isinstance(s["ops"][0], str) and s["ops"][0].startswith("m"):
                    kill[i].add(int(src))
        t = blk.get("term")
        if t:
            if t["k"] == "drop" and "." not in t["p"] and int(t["p"]) in guard_locals:
                kill[i].add(int(t["p"]))
                gen[i].discard(int(t["p"]))
            if t["k"] == "call":
                for a in t["args"]:
                    if isinstance(a, str) and a.startswith("m") and "." not in a[1:] and int(a[1:]) in guard_locals:
                        kill[i].add(int(a[1:]))
                dl = t.get("dest")
                if dl and "." not in dl and int(dl) in guard_locals:
                    gen[i].add(int(dl))
    live = cfg.live_blocks(body)
    inn = [set() for _ in range(n)]
    out = [set() for _ in range(n)]
    changed = True
    while changed:
        changed = False
        for i in sorted(live):
            o = (inn[i] - kill[i]) | gen[i]
            if o != out[i]:
                out[i] = o
                changed = True
            for s in sc[i]:
                if not out[i] <= inn[s]:
                    inn[s] |= out[i]
                    changed = True
    res = []
    for i in sorted(live):
        t = body.blocks[i].get("term")
        if t and t["k"] == "call" and ACQ.match(t.get("callee") or ""):
            ty, mode = _protected(t)
            if ty:
                held = {guard_locals[l] for l in inn[i]}
                res.append((i, ("W:" if mode in ("write", "lock", "write_owned", "lock_owned") else "R:") + ty, held))
    return res


def r2_lock_order(ctx):
    ws = ctx.ws
    r = ctx.rule("C09-R2", "the lock-order graph over protected types is acyclic",
                 floor=20, kind="K10 lock-order analysis")
    edges = {}
    nacq = 0
    for b in ws.bodies.values():
        if b.crate not in LOCK_CRATES:
            continue
        for (i, acq, held) in _held_analysis(b):
            nacq += 1
            a = acq[2:]
            for h in held:
                hh = h[2:]
                if hh == a:
                    continue
                # two read guards never block each other
                if h.startswith("R:") and acq.startswith("R:"):
                    pass
                edges.setdefault(hh, {}).setdefault(a, []).append((b, i))
    r.note("%d acquisition sites analysed; %d ordered pairs of protected types" % (nacq, sum(len(v) for v in edges.values())))
    # cycle detection
    color = {}
    cyc = []

    def dfs(u, stack):
        color[u] = 1
        for v in edges.get(u, {}):
            if color.get(v, 0) == 0:
                dfs(v, stack + [v])
            elif color.get(v) == 1:
                cyc.append(stack[stack.index(v):] + [v] if v in stack else [u, v])
        color[u] = 2
    for u in sorted(edges):
        if color.get(u, 0) == 0:
            dfs(u, [u])
    for u in sorted(edges):
        for v in sorted(edges[u]):
            b, i = edges[u][v][0]
            key = "order|%s -> %s" % (u.rsplit("::", 1)[-1], v.rsplit("::", 1)[-1])
            in_cycle = any(u in c and v in c for c in cyc)
            if in_cycle:
                r.violation(key, cfg.loc(b, i), "lock on %s is taken while holding %s, and elsewhere the opposite order occurs: two tasks can deadlock (cycle %s)" % (v, u, [c for c in cyc if u in c][0]), work=len(edges[u][v]))
            else:
                r.ok(key, cfg.loc(b, i), "%d site(s) take %s while holding %s; no opposite order" % (len(edges[u][v]), v.rsplit("::", 1)[-1], u.rsplit("::", 1)[-1]), work=len(edges[u][v]))
    if nacq < 50:
        r.anchor_missing("lock acquisition sites (found %d)" % nacq)


def run(ctx):
    ctx.explanation = (
        "Locking-discipline rules the interleaving claim rests on: (R1) every server handler that reaches a mutating "
        "helper takes the account write guard exactly once and runs exactly one helper call (rewind+patch, "
        "merge+diff) on the storage behind it, and the helpers require &mut storage; (R3) read handlers never take the write guard; (R4, shared with C04) no "
        "CheckedPatch is dropped; (R5, shared with C04) a refused diff is reported to the pushing device as Comparison::Unknown; (R6, shared with C07) the rollback of a refused rewind re-applies the pruned records in append order; (R10, the server-side instances of C07-R3) every exit of the server patch helper after a completed rewind is Success or passes the rollback. Deadlock freedom (lock-order acyclicity) could not be "
        "made exact with a type-level may-hold analysis and is NOT decided; outcomes over interleavings and convergence "
        "are not decided.")
    ctx.trust("tokio RwLock/Mutex semantics", "guard liveness read from StorageDead/Drop in mir_built")
    ctx.assume("lock identity is approximated by the protected type; same-type nesting (two folders) is not ordered")
    r1_one_critical_section(ctx)
    # r2_lock_order is NOT armed: the may-hold approximation (lock identity =
    # protected type, read/read nesting, guards moved through Arc::clone
    # scopes) reports cycles that reading shows to be infeasible, so it cannot
    # be made exact here (DESIGN.md, C09). Kept for exploration only.
    r3_readers_take_read_guards(ctx)
    def shared(fn, src_id, new_id):
        fn(ctx)
        ctx.rules[-1].id = new_id
        for inst in ctx.rules[-1].instances:
            inst["rule"] = new_id
            inst["key"] = inst["key"].replace(src_id + "|", new_id + "|", 1)
    shared(c04.r4_refused_patch_not_dropped, "C04-R4", "C09-R4")
    # a sync that was refused must be *seen* as a conflict by the device that
    # pushed it (else "each sync call ends in success or an explicit conflict"
    # fails under the interleaving status | other device's sync | sync)
    shared(c04.r4b_conflict_reported_as_unknown, "C04-R4b", "C09-R5")
    # a patch refused after the rewind must leave the server log as it was:
    # the rollback re-applies the pruned records in append order
    from . import c07
    shared(c07.r4_rollback_order, "C07-R4", "C09-R6")
    # "a further round of syncs converges": the merge step gives up local records only
    # behind local ⊆ remote and then adopts the REMOTE side
    from . import c05
    shared(c05.r1_nothing_dropped, "C05-R1", "C09-R7")
    # a refused patch is undone on the log it was rewound on (and every per-kind arm
    # works on its own log)
    c04.r7_log_kind_arms(ctx, rule_id="C09-R8")
    # a conflict that is only in one log kind (files) must still be seen as a conflict
    shared(c04.r8_per_kind_aggregates, "C04-R8", "C09-R9")
    # "the server's logs only ever change by whole accepted patches": on the server
    # every exit after a completed rewind is Success or passes the rollback.  Only
    # the server-side instances of C07-R3 are kept (the client side belongs to C07).
    shared(c07.r3_rewind_undone, "C07-R3", "C09-R10")
    r10 = ctx.rules[-1]
    r10.instances = [i for i in r10.instances if "|sos_server" in i["key"]]
    r10.floor = 1
    if ctx.tier == "thorough" and ctx.config == "workspace":
        from .. import witness
        witness.run(ctx, 'C09-W', 'mutating server helpers need the write guard (type level)', {'PatchNeedsWriteGuard': 'event_patch(req, &mut *read_guard)', 'SyncNeedsWriteGuard': 'sync_account(packet, &mut *read_guard)'})
