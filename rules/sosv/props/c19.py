"""C19 — Upgrading file-system accounts to the database loses nothing."""
import re
from .. import cfg, idioms
from ..flow import FlowGraph
from ..idioms import cname

MOD = "sos_database_upgrader::upgrader::"
DESTRUCTIVE = {"remove_dir", "remove_dir_all", "remove_file", "rename", "create", "create_dir_all", "copy", "write",
               "open_file_with_journal_mode", "create_backups", "delete_file", "export_backup_archive"}
# Creating calls that are allowed outside the dry-run guard, with the reason.
DRY_RUN_EXCEPTIONS = {
    ("sos_database_upgrader::upgrader::assert_sync_status", "create_dir_all"): "error report in the logs directory, written only when the status comparison failed",
    ("sos_database_upgrader::upgrader::assert_sync_status", "write"): "error report in the logs directory, written only when the status comparison failed",
}
IMPORT_PAIRS = [
    ("collect_vault_rows", None),
    ("collect_folder_events", "insert_folder_events"),
    ("collect_account_events", "insert_account_events"),
    ("collect_device_events", "insert_device_events"),
    ("collect_file_events", "insert_file_events"),
    (None, "insert_login_folder"), (None, "insert_device_folder"),
    (None, "insert_preferences"), (None, "insert_servers"), (None, "insert_system_messages"),
    (None, "insert_folder"), (None, "insert_folder_secrets"),
]


def _wet_edges(ws, f, body, fg):
    """Edges taken only when dry_run is false."""
    out = set()
    n = 0
    for i in cfg.live_blocks(body):
        bs = cfg.bool_switch(body, i)
        if not bs or bs.defn is None or bs.def_is_term:
            continue
        d = bs.defn
        sl = fg.back([(body.path, bs.local)])
        if not sl.reads_field("dry_run"):
            continue
        if d.get("k") == "un" and d.get("op") == "Not":
            # the operand must itself be the dry_run read (not a compound)
            out.add((bs.block, bs.true_t))
            n += 1
        elif d.get("k") == "use":
            out.add((bs.block, bs.false_t))
            n += 1
    return out, n


def r1_dry_run_read_only(ctx):
    ws = ctx.ws
    r = ctx.rule("C19-R1", "every creating or destructive call of the upgrader is control-dependent on !dry_run",
                 floor=8, kind="K2 control dependence")
    fns = [f for f in ws.fns.values() if f.root.startswith(MOD) and "::db_import::" not in f.root and f.crate not in idioms.TEST_CRATES]
    if len(fns) < 5:
        r.anchor_missing("upgrader module functions")
        return
    # functions whose every call site is guarded are guarded as a whole
    guarded_fn = {}
    info = {}
    for f in fns:
        body = cfg.code_body(ws, f)
        fg = FlowGraph(ws, f)
        wet, n = _wet_edges(ws, f, body, fg)
        info[f.root] = (body, wet)
    for f in fns:
        body, wet = info[f.root]
        unguarded = cfg.reach(body, [0], cut_edges=wet)
        for i, t in idioms.real_calls(body, cfg.live_blocks(body)):
            tgt = t.get("resolved") or t.get("callee")
            if tgt in info:
                guarded_fn.setdefault(tgt, []).append(i not in unguarded)
    for f in fns:
        body, wet = info[f.root]
        unguarded = cfg.reach(body, [0], cut_edges=wet)
        whole = f.root in guarded_fn and all(guarded_fn[f.root])
        cnt = {}
        for i, t in idioms.real_calls(body, cfg.live_blocks(body)):
            nm = cname(t)
            if nm not in DESTRUCTIVE:
                continue
            c = t.get("callee") or ""
            if nm in ("create", "copy", "write", "rename") and not re.search(r"(fs::|vfs|File|io::copy|io::util::copy)", c):
                continue
            idx = cnt.get(nm, 0)
            cnt[nm] = idx + 1
            k = "%s|%s#%d" % (f.root, nm, idx)
            if (f.root, nm) in DRY_RUN_EXCEPTIONS:
                r.ok(k, cfg.loc(body, i), "tabled exception: " + DRY_RUN_EXCEPTIONS[(f.root, nm)], work=1)
            elif whole:
                r.ok(k, cfg.loc(body, i), "%s: the whole function is only called under !dry_run" % nm, work=len(unguarded))
            elif i in unguarded:
                p = cfg.find_path(body, [0], [i], cut_edges=wet)
                r.violation(k, cfg.loc(body, i), "`%s` is reachable in a dry run (not control-dependent on !options.dry_run): a dry run modifies the source data" % nm,
                            work=len(unguarded), witness=cfg.path_lines(body, p))
            else:
                r.ok(k, cfg.loc(body, i), "%s only under !dry_run" % nm, work=len(unguarded))


def r2_delete_after_status_check(ctx):
    ws = ctx.ws
    r = ctx.rule("C19-R2", "the database is moved into place and the source deleted only after the sync-status assertion passed",
                 floor=3, kind="K2 dominance")
    f = ws.fn(MOD + "upgrade_accounts")
    if not f:
        r.anchor_missing("upgrade_accounts")
        return
    body = cfg.code_body(ws, f)
    ass = [i for i, t in idioms.real_calls(body) if cname(t) == "assert_sync_status"]
    if not ass:
        r.violation(f.root + "|asserts", cfg.loc(body), "upgrade_accounts no longer calls assert_sync_status", work=1)
        return
    cut = []
    for a in ass:
        rb = idioms.result_branches(body, a)
        cut.extend(rb[0] if rb else [a])
    pre = cfg.reach(body, [0], cut_blocks=cut)
    for nm in ("rename", "delete_stale_files", "copy_file_blobs"):
        bl = [i for i, t in idioms.real_calls(body) if cname(t) == nm]
        k = "%s|%s-after-assert" % (f.root, nm)
        if not bl:
            r.violation(k, cfg.loc(body), "upgrade_accounts no longer calls %s" % nm, work=1)
        elif any(b in pre for b in bl):
            r.violation(k, cfg.loc(body, bl[0]), "`%s` can run although assert_sync_status did not succeed: the source is replaced/deleted without proof that nothing was lost" % nm, work=len(pre))
        else:
            r.ok(k, cfg.loc(body, bl[0]), "%s only after a successful assert_sync_status" % nm, work=len(pre))
    a = ws.fn(MOD + "assert_sync_status")
    if a:
        body = cfg.code_body(ws, a)
        fg = FlowGraph(ws, a)
        gate = None
        for i in cfg.live_blocks(body):
            bs = cfg.bool_switch(body, i)
            if bs and bs.def_is_term and cname(bs.defn) in ("ne", "eq"):
                sl = fg.back([(body.path, bs.local)])
                if sl.reads_field("root"):
                    gate = bs
                    break
        errs = [e.block for e in cfg.exits(body) if e.kind == "err" and e.variant != "?"]
        k = a.root + "|compares-status"
        if gate is None:
            r.violation(k, cfg.loc(body), "assert_sync_status does not compare the cumulative root of source and target", work=len(body.blocks))
        else:
            neq = cname(gate.defn) == "ne"
            mism = gate.true_t if neq else gate.false_t
            if any(e in cfg.reach(body, [mism], cut_blocks=[gate.block]) for e in errs):
                r.ok(k, cfg.loc(body, gate.block), "fs.root != db.root leads to Err(AccountStatus)", work=len(body.blocks))
            else:
                r.violation(k, cfg.loc(body, gate.block), "a differing status root does not abort the upgrade", work=len(body.blocks))
    else:
        r.anchor_missing("assert_sync_status")
    ia = ws.fn(MOD + "import_accounts")
    if ia:
        names = [cname(t) for _b, _i, t in ia.calls()]
        k = ia.root + "|status-both-sides"
        if names.count("sync_status") >= 2:
            r.ok(k, cfg.loc(ia.main), "sync_status is computed for the source and for the imported account", work=1)
        else:
            r.violation(k, cfg.loc(ia.main), "sync_status is computed %d time(s); source and target are not both measured" % names.count("sync_status"), work=1)


def r3_import_covers_everything(ctx):
    ws = ctx.ws
    r = ctx.rule("C19-R3", "import_account collects and inserts every log and table",
                 floor=10, kind="K6 coverage table")
    f = ws.fn(MOD + "db_import::import_account")
    if not f:
        r.anchor_missing("db_import::import_account")
        return
    names = set()
    for b, i, t in f.calls():
        names.add(cname(t))
    cf = ws.fn(MOD + "db_import::create_folder")
    if cf:
        for b, i, t in cf.calls():
            names.add(cname(t))
    for col, ins in IMPORT_PAIRS:
        for n in (col, ins):
            if n is None:
                continue
            k = "%s|%s" % (f.root, n)
            if n in names:
                r.ok(k, cfg.loc(f.main), "%s is called" % n, work=1)
            else:
                r.violation(k, cfg.loc(f.main), "import_account no longer calls %s: that part of the account is not carried into the database" % n, work=1)
    # every EventLogType-specific log is read from the source
    need = {"identity_log", "account_log", "device_log", "file_log", "folder_log"}
    miss = need - names
    k = f.root + "|reads-all-logs"
    if miss:
        r.violation(k, cfg.loc(f.main), "import_account does not read %s" % sorted(miss), work=1)
    else:
        r.ok(k, cfg.loc(f.main), "reads identity, account, device, file and folder logs", work=1)


def r4_backend_dispatch(ctx):
    ws = ctx.ws
    r = ctx.rule("C19-R4", "backend enums delegate each trait method to the same method on both stores",
                 floor=20, kind="K5 sibling agreement")
    n = 0
    for impl in ws.impls:
        adt = ws.adts.get(impl.get("self_adt") or "")
        if not adt or adt["kind"] != "Enum" or impl["crate"] in idioms.TEST_CRATES or not impl.get("trait"):
            continue
        vs = [v["name"] for v in adt["variants"]]
        if set(vs) != {"Database", "FileSystem"} and set(vs) != {"FileSystem", "Database"}:
            continue
        if not impl["trait"].startswith("sos_"):
            continue
        for (mname, fn, body, names, sws) in idioms.delegation_report(ws, impl):
            if not sws:
                continue
            n += 1
            key = "%s as %s|%s" % (impl["self_adt"].rsplit("::", 1)[-1], impl["trait"].rsplit("::", 1)[-1], mname)
            own = [x for x in names if x == mname]
            tr = ws.traits.get(impl["trait"])
            tnames = {it["name"] for it in tr["items"]} if tr else set()
            other = [x for x in names if x != mname and x in tnames]
            if len(own) >= 2 and not other:
                r.ok(key, cfg.loc(body), "both arms delegate to %s" % mname, work=len(body.blocks))
            elif own and other:
                r.violation(key, cfg.loc(body), "%s delegates to a different trait method %s in one arm" % (mname, sorted(set(other))), work=len(body.blocks))
            elif len(own) == 1:
                r.violation(key, cfg.loc(body), "%s delegates to the inner %s in only one of the two backends" % (mname, mname), work=len(body.blocks))
            else:
                r.ok(key, cfg.loc(body), "not a plain delegate (own logic per arm)", work=len(body.blocks))
    if n < 20:
        r.anchor_missing("Database/FileSystem dispatch impls (found %d methods)" % n)


def r5_loops_visit_every_item(ctx):
    """A per-item loop of the upgrader (accounts, folders, blobs, rows) has no
    success return inside its body: an early `return Ok` ends the migration of
    everything after the current item while the upgrade still reports success."""
    ws = ctx.ws
    r = ctx.rule("C19-R5", "no success return from inside a per-item loop of the upgrader",
                 floor=12, kind="K2 exit reachability from loop bodies")
    n = 0
    for root, fn in sorted(ws.fns.items()):
        if fn.crate != "sos_database_upgrader":
            continue
        for b in fn.bodies:
            live = cfg.live_blocks(b)
            oks = {e.block for e in cfg.exits(b) if e.kind == "ok"}
            idx = 0
            for i, t in b.calls():
                if i not in live or cname(t) != "next" or not (t.get("macro") or "").endswith("ForLoop"):
                    continue
                es = cfg.enum_switch(b, t.get("t")) if t.get("t") is not None else None
                if not es or "Some" not in es.targets:
                    continue
                n += 1
                idx += 1
                k = "%s|loop#%d" % (root, idx)
                inside = cfg.reach(b, [es.targets["Some"]], cut_blocks=[i]) & oks
                if inside:
                    p_ = cfg.find_path(b, [es.targets["Some"]], sorted(inside), cut_blocks=[i])
                    r.violation(k, cfg.loc(b, sorted(inside)[0]),
                                "the function can return Ok from inside the loop body: the remaining items (accounts / folders / blobs) are silently skipped",
                                work=len(live), witness=cfg.path_lines(b, p_))
                else:
                    r.ok(k, cfg.loc(b, i), "the loop body leaves only by `continue`, the end of the body, or an error", work=len(live))
    if n < 12:
        r.anchor_missing("for loops in sos_database_upgrader (found %d, 14 on the pinned tree)" % n)


PATHS_TY = re.compile(r"sos_core::paths::Paths::")


def r6_account_paths(ctx):
    """Inside a function that is handed the account's own `paths`, per-account
    files are located through it and never through `options.paths` (the
    global paths the upgrade was started with)."""
    ws = ctx.ws
    r = ctx.rule("C19-R6", "per-account files are located through the account's own Paths, not the global options.paths",
                 floor=10, kind="K4 receiver origin")
    n = 0
    for root, fn in sorted(ws.fns.items()):
        if fn.crate != "sos_database_upgrader":
            continue
        body = cfg.code_body(ws, fn)
        if "paths" not in body.vars.values() or "options" not in body.vars.values():
            continue
        fg = FlowGraph(ws, fn)
        counts = {}
        for b in fn.bodies:
            for i, t in idioms.real_calls(b, cfg.live_blocks(b)):
                if not PATHS_TY.search(t.get("callee") or "") or not t["args"]:
                    continue
                nm = cname(t)
                if nm in ("is_global", "is_server", "clone", "documents_dir", "new_client", "new_server", "with_account_id"):
                    continue
                counts[nm] = counts.get(nm, 0) + 1
                k = "%s|%s#%d" % (root, nm, counts[nm])
                sl = fg.back_from_operand(b, t["args"][0])
                n += 1
                if nm.startswith("global_") and not sl.reads_field("paths", "UpgradeOptions"):
                    # the converse: a global file is not what an account-level row is read from
                    r.violation(k, cfg.loc(b, i),
                                "`%s()` is called on the account's own paths: account-level data is read from the global file, so every account gets a copy of the global data instead of its own" % nm,
                                work=len(sl.nodes))
                elif nm.startswith("global_"):
                    r.ok(k, cfg.loc(b, i), "global `%s()` on the global paths" % nm, work=len(sl.nodes))
                elif sl.reads_field("paths", "UpgradeOptions"):
                    r.violation(k, cfg.loc(b, i),
                                "`%s()` is taken from options.paths although the function was given the account's own paths: on a data-directory upgrade every account gets the global file instead of its own" % nm,
                                work=len(sl.nodes))
                else:
                    r.ok(k, cfg.loc(b, i), "`%s()` on the account's paths" % nm, work=len(sl.nodes))
    if n < 10:
        r.anchor_missing("Paths accessors in functions with both `paths` and `options` (found %d)" % n)


DROPPING = {"filter", "filter_map", "take", "skip", "take_while", "skip_while", "step_by", "retain", "retain_mut",
            "dedup", "dedup_by", "dedup_by_key", "truncate", "drain", "pop", "swap_remove", "find", "find_map", "nth", "last"}


SOURCE_READ = re.compile(r"^(from_slice|from_str|from_reader|read|read_to_string|read_to_end|decode|list_\w+|collect_\w+|\w+_log|record_stream|event_stream|load_\w+|read_dir|next_entry|entries|keys|values|iter|into_iter)$")


def r7_nothing_filtered(ctx):
    """The upgrader carries over whatever it reads: no element-dropping
    adaptor (filter, filter_map, take, skip, retain, dedup, truncate ..) on
    the collections it migrates. Expected count on the pinned tree: zero."""
    ws = ctx.ws
    r = ctx.rule("C19-R7", "the upgrader applies no element-dropping adaptor to the data it migrates",
                 floor=1, kind="K1 who-may-call (expected count zero, with a mapping-call control)")
    assert "filter_map" in DROPPING          # the matcher itself (positive control of the name table)
    nmap = 0
    idx = {}
    fgs = {}
    for root, fn in sorted(ws.fns.items()):
        if fn.crate != "sos_database_upgrader":
            continue
        for b, i, t in fn.calls():
            if idioms.is_noise(t) or idioms.is_logging(t) or i not in cfg.live_blocks(b):
                continue
            nm = cname(t)
            c = t.get("callee") or ""
            if nm in ("map", "collect", "into_iter", "iter", "extend", "push"):
                nmap += 1
            if nm in DROPPING and re.search(r"(iter|Iterator|Vec|slice|VecDeque|HashMap|IndexMap)", c + " " + (t.get("trait") or "")):
                # only collections that carry data read from the source account
                fg_ = fgs.setdefault(root, FlowGraph(ws, fn))
                sl_ = fg_.back_from_operand(b, t["args"][0]) if t.get("args") else None
                if sl_ is not None and not any(SOURCE_READ.search(cname(ct)) for _b, _i, ct in sl_.calls):
                    continue
                idx[root] = idx.get(root, 0) + 1
                r.violation("%s|%s#%d" % (root, nm, idx[root]), cfg.loc(b, i),
                            "`%s` drops elements of a collection the upgrader migrates: whatever does not pass (e.g. a server origin that is not in remap_servers) silently disappears from the upgraded account" % nm, work=1)
    if nmap >= 10:
        r.ok("sos_database_upgrader|carries-everything", "-", "%d mapping/collecting calls in the upgrader, none of them element-dropping" % nmap, work=nmap)
    else:
        r.anchor_missing("mapping calls in sos_database_upgrader (found %d)" % nmap)


def r8_every_blob_copied(ctx):
    """copy_file_blobs: every iteration of the per-file loop records the file
    in the result (so delete_stale_files never removes a blob that was not
    carried over) and, on a real run, reaches the copy; a `continue` in front of
    them skips files silently."""
    ws = ctx.ws
    r = ctx.rule("C19-R8", "every external file of every account is copied and recorded by copy_file_blobs; FolderRecord::into_vault carries every stored header part",
                 floor=2, kind="K2 must-pass-through inside the loop + K5 field coverage")
    fns = ws.find_fns(r"^sos_database_upgrader::upgrader::copy_file_blobs$")
    if not fns:
        r.anchor_missing("upgrader::copy_file_blobs")
    else:
        f = fns[0]
        for b in f.bodies:
            live = cfg.live_blocks(b)
            pushes = [i for i, t in idioms.real_calls(b, live) if cname(t) == "push"]
            copies = [i for i, t in idioms.real_calls(b, live) if cname(t) in ("copy", "copy_buf", "write_all", "rename") and re.search(r"(io::|fs::|vfs)", t.get("callee") or "")]
            if not pushes:
                continue
            loops = []
            for i, t in b.calls():
                if i not in live or cname(t) != "next" or not (t.get("macro") or "").endswith("ForLoop"):
                    continue
                es = cfg.enum_switch(b, t.get("t")) if t.get("t") is not None else None
                if not es or "Some" not in es.targets:
                    continue
                inside = cfg.reach(b, [es.targets["Some"]], cut_blocks=[i])
                if set(pushes) & inside:
                    loops.append((len(inside), i, es, inside))
            # the innermost loop around the push is the per-file loop
            for (_sz, i, es, inside) in sorted(loops)[:1]:
                k = f.root + "|every-file-recorded"
                if i in cfg.reach(b, [es.targets["Some"]], cut_blocks=pushes):
                    p_ = cfg.find_path(b, [es.targets["Some"]], [i], cut_blocks=pushes)
                    r.violation(k, cfg.loc(b, pushes[0]), "an iteration of the per-file loop can finish without recording (and copying) the file: files are skipped while the upgrade reports success and the originals are then deleted", work=len(live), witness=cfg.path_lines(b, p_))
                else:
                    r.ok(k, cfg.loc(b, pushes[0]), "every iteration pushes the (source, dest) pair", work=len(live))
                k2 = f.root + "|copy-before-record"
                if not copies:
                    r.violation(k2, cfg.loc(b, pushes[0]), "copy_file_blobs no longer copies the blob", work=len(live))
                else:
                    # a path from the loop body to the push that avoids the copy must pass the dry-run edge
                    dry = set()
                    fg_ = FlowGraph(ws, f)
                    for j in sorted(inside):
                        bs = cfg.bool_switch(b, j)
                        if bs and fg_.back([(b.path, bs.local)]).reads_field("dry_run"):
                            dry.add((bs.block, bs.true_t))
                            dry.add((bs.block, bs.false_t))
                    r1 = cfg.reach(b, [es.targets["Some"]], cut_blocks=copies + [i], cut_edges=set())
                    # allowed: paths through exactly the dry-run skip edge; find which edge skips the copy
                    skip_edges = {e for e in dry if not (set(copies) & cfg.reach(b, [e[1]], cut_blocks=[i] + pushes))}
                    r2 = cfg.reach(b, [es.targets["Some"]], cut_blocks=copies + [i], cut_edges=skip_edges)
                    if set(pushes) & r2:
                        r.violation(k2, cfg.loc(b, copies[0]), "on a real run the pair can be recorded without the blob having been copied", work=len(live))
                    else:
                        r.ok(k2, cfg.loc(b, copies[0]), "recorded only after the copy (or on the dry-run edge)", work=len(live))
    fr = ws.find_fns(r"^sos_database::entity::folder::FolderRecord::into_vault$")
    adt = ws.adts.get("sos_database::entity::folder::FolderRecord")
    if not fr or not adt:
        r.anchor_missing("FolderRecord::into_vault")
        return
    fields = [x["name"] for x in adt["variants"][0]["fields"]]
    bookkeeping = {"row_id": "database key", "created_at": "row timestamp", "modified_at": "row timestamp"}
    rd, _w = idioms.fields_touched(ws, fr[0], "sos_database::entity::folder::FolderRecord")
    miss = [x for x in fields if x not in rd and x not in bookkeeping]
    k = fr[0].root + "|carries-header"
    if miss:
        r.violation(k, cfg.loc(fr[0].main), "FolderRecord::into_vault never reads `%s`: the vault the database backend unlocks lacks it (with the seed missing the key derives differently and the upgraded account can no longer be opened)" % "`, `".join(miss), work=len(fields))
    else:
        r.ok(k, cfg.loc(fr[0].main), "reads %s" % sorted(set(fields) - set(bookkeeping)), work=len(fields))


def run(ctx):
    ctx.explanation = (
        "Guard, order and coverage rules over the upgrader: (R1) every creating/destructive call in the upgrader module "
        "is control-dependent on !options.dry_run (or sits in a function only called under that guard); (R2) rename of the "
        "new database, blob copying and deletion of the source are dominated by a successful assert_sync_status, which "
        "compares whole SyncStatus values computed on both sides; (R3) import_account reads all five log kinds and calls "
        "a collector and an inserter for each log and table; (R4) every Database/FileSystem enum impl delegates each "
        "method to the same method in both arms; (R5) no per-item loop of the upgrader can return Ok from inside its body; (R6) in functions given the account's own Paths, per-account files are never located through options.paths and never through a global_* accessor. Event-for-event equality is what assert_sync_status checks at run time "
        "and is not decided here.")
    ctx.trust("SyncStatus equality is structural (derived PartialEq)")
    r1_dry_run_read_only(ctx)
    r2_delete_after_status_check(ctx)
    r3_import_covers_everything(ctx)
    r4_backend_dispatch(ctx)
    r5_loops_visit_every_item(ctx)
    r6_account_paths(ctx)
    r7_nothing_filtered(ctx)
    r8_every_blob_copied(ctx)
