"""C05 — Merging never loses, duplicates or resurrects committed edits."""
import re
from .. import cfg, idioms
from ..flow import FlowGraph
from ..idioms import cname


def r1_nothing_dropped(ctx):
    ws = ctx.ws
    r = ctx.rule("C05-R1", "merge_patches: the pushed patch is built from both sides; the rewind-local result is the remote side under the subset test",
                 floor=3, kind="K4 value flow + K2")
    fns = ws.find_fns(r"auto_merge::AutoMerge::merge_patches$")
    if not fns:
        r.anchor_missing("AutoMerge::merge_patches")
        return None
    f = fns[0]
    body = cfg.code_body(ws, f)
    fg = FlowGraph(ws, f)
    live = cfg.live_blocks(body)
    aggs = {}
    for j in sorted(live):
        for s in body.blocks[j]["s"]:
            if s.get("k") == "agg" and (s.get("adt") or "").endswith("AutoMergeStatus"):
                aggs.setdefault(s["variant"], []).append((j, s))
    for v in ("PushRemote", "RewindLocal"):
        if v not in aggs:
            r.violation(f.root + "|constructs:" + v, cfg.loc(body), "merge_patches never produces AutoMergeStatus::%s" % v, work=1)
    for (j, s) in aggs.get("PushRemote", []):
        sl = fg.back_from_operand(body, s["ops"][0])
        k = f.root + "|push-has-both-sides"
        if sl.has_var(body, "local") and sl.has_var(body, "remote"):
            r.ok(k, cfg.loc(body, j), "PushRemote payload depends on `local` and `remote`", work=len(sl.nodes))
        else:
            r.violation(k, cfg.loc(body, j), "the merged patch pushed to the remote does not contain both the local and the remote events (local:%s remote:%s)" % (sl.has_var(body, "local"), sl.has_var(body, "remote")), work=len(sl.nodes))
        filt = [(i, cname(t)) for i, t in idioms.real_calls(body, live) if cname(t) in ("retain", "retain_mut", "dedup", "dedup_by", "dedup_by_key", "filter", "filter_map", "truncate", "drain", "remove", "swap_remove", "pop", "take", "skip", "take_while", "skip_while")
                and re.search(r"(Vec|slice|Iterator|IntoIterator)", (t.get("callee") or "") + (t.get("trait") or ""))]
        k = f.root + "|nothing-filtered"
        if filt:
            r.violation(k, cfg.loc(body, filt[0][0]), "merge_patches drops records from the merged patch (`%s`): committed events can be lost (byte-identical events made twice on purpose are legitimate)" % filt[0][1], work=len(live))
        else:
            r.ok(k, cfg.loc(body, j), "no record is removed from the merged patch", work=len(live))
        ext = [i for i, t in idioms.real_calls(body, live) if cname(t) in ("extend", "append", "extend_from_slice", "chain")]
        if ext:
            r.ok(f.root + "|concatenates", cfg.loc(body, ext[0]), "the two sides are concatenated (nothing filtered out)", work=1)
        else:
            r.violation(f.root + "|concatenates", cfg.loc(body, j), "the two sides are no longer concatenated before sorting", work=1)
    for (j, s) in aggs.get("RewindLocal", []):
        sl = fg.back_from_operand(body, s["ops"][0])
        k = f.root + "|rewind-is-remote"
        # `local` is extended with `remote` later on, so (flow-insensitively) local
        # depends on remote; the remote side is the one that does NOT depend on local
        if sl.has_var(body, "remote") and not sl.has_var(body, "local"):
            r.ok(k, cfg.loc(body, j), "RewindLocal payload is the remote side", work=len(sl.nodes))
        else:
            r.violation(k, cfg.loc(body, j), "RewindLocal does not carry the remote events (it is built from `local`): the device rewinds and re-applies its own events and never adopts the server's order", work=len(sl.nodes))
        gate = None
        for i in live:
            bs = cfg.bool_switch(body, i)
            if bs and bs.def_is_term and cname(bs.defn) == "is_subset":
                gate = bs
        if gate is not None:
            d = gate.defn
            recv = fg.back_from_operand(body, d["args"][0])
            arg = fg.back_from_operand(body, d["args"][1])
            k2 = f.root + "|subset-direction"
            # `local` is later extended with `remote` (flow-insensitive: local depends on remote),
            # so the discriminating side is the argument: it must be built from `remote` alone
            if recv.has_var(body, "local") and arg.has_var(body, "remote") and not arg.has_var(body, "local"):
                r.ok(k2, cfg.loc(body, gate.block), "local_commits.is_subset(remote_commits)", work=len(recv.nodes) + len(arg.nodes))
            else:
                r.violation(k2, cfg.loc(body, gate.block), "the subset test is not `local ⊆ remote`: local-only events can be discarded by the rewind", work=len(recv.nodes) + len(arg.nodes))
        k = f.root + "|rewind-only-when-subset"
        if gate and j not in cfg.reach(body, [0], cut_edges={(gate.block, gate.true_t)}):
            r.ok(k, cfg.loc(body, gate.block), "RewindLocal only when every local commit is already in the remote set", work=len(live))
        else:
            r.violation(k, cfg.loc(body, j), "local events can be discarded (RewindLocal) without the subset test having passed", work=len(live))
    return f


def r2_stable_time_sort(ctx, f):
    ws = ctx.ws
    r = ctx.rule("C05-R2", "divergent events are interleaved by a stable ascending sort on the record time",
                 floor=2, kind="K1 + K4")
    if f is None:
        r.anchor_missing("AutoMerge::merge_patches")
        return
    body = cfg.code_body(ws, f)
    sorts = [(i, t) for i, t in idioms.real_calls(body) if re.match(r"sort", cname(t))]
    if not sorts:
        r.violation(f.root + "|sorts", cfg.loc(body), "the merged patch is not sorted", work=1)
        return
    i, t = sorts[0]
    n = cname(t)
    k = f.root + "|stable"
    if n in ("sort_by", "sort_by_key", "sort", "sort_by_cached_key"):
        r.ok(k, cfg.loc(body, i), "%s is a stable sort: ties keep concatenation order on every device" % n, work=1)
    else:
        r.violation(k, cfg.loc(body, i), "%s is not stable: events with equal timestamps may be ordered differently on different devices" % n, work=1)
    # comparator: closure body compares time() of first parameter with time() of second
    cl = [b for b in f.bodies if b.kind == "Closure" and b.argc == 3 and any(cname(tt) in ("cmp", "partial_cmp") for _j, tt in b.calls())]
    k = f.root + "|comparator"
    ok = False
    for b in cl:
        fg = FlowGraph(ws, ws.fns[b.root])
        for j, tt in b.calls():
            if cname(tt) != "cmp":
                continue
            a0 = fg.back_from_operand(b, tt["args"][0])
            a1 = fg.back_from_operand(b, tt["args"][1])
            t0 = any(cname(c[2]) == "time" for c in a0.calls)
            t1 = any(cname(c[2]) == "time" for c in a1.calls)
            asc = (b.path, 2) in a0.nodes and (b.path, 3) in a1.nodes and (b.path, 3) not in a0.nodes
            if t0 and t1 and asc:
                ok = True
    how = "comparator is a.time().cmp(b.time()) (ascending)"
    if not ok and n in ("sort_by_key", "sort_by_cached_key"):
        # key form: the key closure returns (a copy of) the record's time()
        for b in f.bodies:
            if b.kind != "Closure" or b.argc != 2:
                continue
            fgk = FlowGraph(ws, ws.fns[b.root])
            sl = fgk.back([(b.path, 0)])
            if any(cname(c[2]) == "time" for c in sl.calls) and (b.path, 2) in sl.nodes \
                    and not any(cname(c[2]) in ("Reverse", "neg", "not") or "cmp::Reverse" in (c[2].get("callee") or "") for c in sl.calls) \
                    and not any("Reverse" in (a_[1].get("adt") or "") for a_ in sl.aggs):
                ok = True
                how = "sort key is the record's time() (ascending by key)"
    if ok:
        r.ok(k, cfg.loc(body, i), how, work=len(cl))
    else:
        r.violation(k, cfg.loc(body, i), "the sort comparator is not `a.time().cmp(b.time())` on the two records (ascending by record time)", work=len(cl))


def r3_timestamps_survive(ctx):
    ws = ctx.ws
    r = ctx.rule("C05-R3", "applying, patching or rewinding records never rewrites their timestamps",
                 floor=1, kind="K1 who-may-call")
    rx = re.compile(r"sos_core::events::record::EventRecord::set_time$")
    callers = idioms.callers_of(ws, rx, idioms.TEST_CRATES)
    bad = 0
    for (f, b, i, t) in callers:
        k = "%s|set_time" % f.root
        if re.search(r"(EventLog<T>>::|auto_merge|server_helpers|folder_sync|::sync::)", f.root):
            bad += 1
            r.violation(k, cfg.loc(b, i), "record timestamps are rewritten on the apply/merge path: the timestamp order of merged events changes", work=1)
        else:
            r.ok(k, cfg.loc(b, i), "set_time outside the merge/apply path (folder import)", work=1)
    r.ok("set_time-callers", "-", "%d caller(s) of EventRecord::set_time examined" % len(callers), work=len(callers))
    # db row keeps the record time
    new = ws.find_fns(r"^sos_database::entity::event::EventRecordRow::new$")
    if new:
        names = {cname(t) for _b, _i, t in new[0].calls()}
        if "time" in names:
            r.ok(new[0].root + "|row-time", cfg.loc(new[0].main), "the stored row's created_at is the record's time()", work=1)
        else:
            r.violation(new[0].root + "|row-time", cfg.loc(new[0].main), "the database row is not built from record.time()", work=1)


def r4_same_ancestor(ctx):
    ws = ctx.ws
    r = ctx.rule("C05-R4", "both sides rewind to the same ancestor commit",
                 floor=3, kind="K4 value flow")
    pr = ws.find_fns(r"auto_merge::AutoMerge::push_remote$")
    if pr:
        f = pr[0]
        body = cfg.code_body(ws, f)
        fg = FlowGraph(ws, f)
        for j in sorted(cfg.live_blocks(body)):
            for s in body.blocks[j]["s"]:
                if s.get("k") == "agg" and (s.get("adt") or "").endswith("PatchRequest"):
                    idx = s["fields"].index("commit")
                    sl = fg.back_from_operand(body, s["ops"][idx])
                    k = f.root + "|request-commit"
                    if sl.has_var(body, "commit"):
                        r.ok(k, cfg.loc(body, j), "PatchRequest.commit is the `commit` parameter", work=len(sl.nodes))
                    else:
                        r.violation(k, cfg.loc(body, j), "PatchRequest.commit is not the ancestor passed to push_remote", work=len(sl.nodes))
        for i, t in idioms.real_calls(body):
            if cname(t) == "rewind_local":
                sl = fg.back_from_operand(body, t["args"][2])
                k = f.root + "|local-rewind-commit"
                if sl.has_var(body, "commit"):
                    r.ok(k, cfg.loc(body, i), "rewind_local gets the same `commit`", work=len(sl.nodes))
                else:
                    r.violation(k, cfg.loc(body, i), "the local side rewinds to a different commit than the one sent to the server", work=len(sl.nodes))
    else:
        r.anchor_missing("AutoMerge::push_remote")
    ep = ws.fn("sos_server_storage::server_helpers::event_patch")
    if ep:
        body = cfg.code_body(ws, ep)
        fg = FlowGraph(ws, ep)
        n = 0
        good = 0
        for i, t in idioms.real_calls(body):
            if cname(t) == "rewind":
                n += 1
                sl = fg.back_from_operand(body, t["args"][-1])
                if sl.reads_field("commit"):
                    good += 1
        k = ep.root + "|server-rewinds-to-request-commit"
        if n and good == n:
            r.ok(k, cfg.loc(body), "all %d rewinds use req.commit" % n, work=n)
        else:
            r.violation(k, cfg.loc(body), "%d of %d server-side rewinds do not use the request's commit" % (n - good, n), work=n)
        ndiff = 0
        gdiff = 0
        for j in sorted(cfg.live_blocks(body)):
            for s in body.blocks[j]["s"]:
                if s.get("k") == "agg" and (s.get("adt") or "").endswith("patch::Diff") and "checkpoint" in s["fields"]:
                    ndiff += 1
                    sl = fg.back_from_operand(body, s["ops"][s["fields"].index("checkpoint")])
                    if sl.reads_field("proof"):
                        gdiff += 1
        k = ep.root + "|merges-with-request-proof"
        if ndiff and gdiff == ndiff:
            r.ok(k, cfg.loc(body), "all %d diffs carry req.proof as checkpoint" % ndiff, work=ndiff)
        else:
            r.violation(k, cfg.loc(body), "%d of %d server-side diffs do not use the request's proof as checkpoint" % (ndiff - gdiff, ndiff), work=ndiff)
    else:
        r.anchor_missing("server_helpers::event_patch")


def run(ctx):
    ctx.explanation = (
        "Structural clauses of the merge mechanism: (R1) the pushed patch depends on both local and remote records "
        "(concatenated, nothing filtered) and local records are given up only behind the is_subset test; (R2) the "
        "interleaving is a stable sort whose comparator is a.time().cmp(b.time()); (R3) no caller on the "
        "apply/merge path rewrites record timestamps and database rows keep record.time(); (R4) the commit sent to the "
        "server, the commit rewound to locally and on the server, and the checkpoint merged with are the request's own; (R8, = C06-R1) the SQL that prunes the divergent suffix before the merged events are re-applied is scoped to the owner and to one row per hash. "
        "The multiset/exactly-once statement over histories (incl. de-duplication of byte-identical events, observation "
        "O1 in DESIGN.md) is a runtime property and is NOT decided.")
    ctx.trust("slice::sort_by is stable (std documentation)")
    f = r1_nothing_dropped(ctx)
    r2_stable_time_sort(ctx, f)
    r3_timestamps_survive(ctx)
    r4_same_ancestor(ctx)
    # shared with C04: scanning / diffing / patching the wrong log of the same type makes the
    # merge start from a wrong ancestor and committed edits are force-merged away
    from . import c04
    c04.r7_log_kind_arms(ctx, rule_id="C05-R5")
    # shared with C06-R2: an auto-merge rewinds the local log before re-applying the merged
    # events; if file, rows and tree are not cut alike the merged events land on stale rows
    from . import c06
    c06.r2_tree_follows_storage(ctx)
    ctx.rules[-1].id = "C05-R6"
    for inst in ctx.rules[-1].instances:
        inst["rule"] = "C05-R6"
        inst["key"] = inst["key"].replace("C06-R2|", "C05-R6|", 1)
    # shared with C08-R5: the ancestor the merge starts from is found by paging through the
    # server's proofs; a page that proves the wrong leaves makes the merge start too early
    # (events applied twice) or gives up with a hard conflict (events force-merged away)
    from . import c08
    c08.r5_scan_page_depends_on_offset(ctx)
    ctx.rules[-1].id = "C05-R7"
    for inst in ctx.rules[-1].instances:
        inst["rule"] = "C05-R7"
        inst["key"] = inst["key"].replace("C08-R5|", "C05-R7|", 1)
    # shared with C06-R1 / C07-R9: the merge prunes the divergent suffix with
    # DELETE statements on the event tables; a statement that is not scoped to the
    # owner and to one row (the newest with that hash) also deletes a committed,
    # byte-identical earlier event (a rename back, the same delete) — lost on reload
    c06.r1_sql_scoping(ctx)
    ctx.rules[-1].id = "C05-R8"
    for inst in ctx.rules[-1].instances:
        inst["rule"] = "C05-R8"
        inst["key"] = inst["key"].replace("C06-R1|", "C05-R8|", 1)
