"""C15 — Malformed bytes are rejected with an error, never a crash."""
import re
from .. import cfg, idioms, callgraph
from ..flow import FlowGraph
from ..idioms import cname
from ..tables import c15_safe

DECODABLE = "binary_stream::futures::Decodable"
PANIC = re.compile(r"^(core::panicking::|std::rt::begin_panic|std::panicking::|core::option::expect_failed|core::result::unwrap_failed)")
UNWRAP = re.compile(r"^core::(option::Option|result::Result)::<.*>::(unwrap|expect|unwrap_err|expect_err|unwrap_unchecked)$")
# external callees that panic on bad values
MAY_PANIC = [
    (re.compile(r"core::ops::index::Index(Mut)?<.*> for (str|\[T\]|alloc::vec::Vec|alloc::string::String)"), "index"),
    (re.compile(r"^core::ops::index::Index(Mut)?::index(_mut)?$"), "index"),
    (re.compile(r"^alloc::vec::Vec::<.*>::(remove|swap_remove|insert|drain|split_off)$"), "vec-position"),
    (re.compile(r"^core::slice::<impl \[T\]>::(split_at|split_at_mut|copy_from_slice|clone_from_slice|chunks|chunks_exact|windows|rotate_left|rotate_right)$"), "slice-bounds"),
    (re.compile(r"time::.*::OffsetDateTime as core::ops::arith::(Add|Sub)"), "time-arith"),
    (re.compile(r"time::.*::Duration as core::ops::arith::(Add|Sub|Mul)"), "time-arith"),
    (re.compile(r"^core::time::Duration::(new|from_secs_f64|from_secs_f32)$"), "duration"),
    (re.compile(r"^alloc::string::String::(insert|insert_str|remove|split_off|drain|replace_range)$"), "string-position"),
    (re.compile(r"^core::str::<impl str>::split_at$"), "str-bounds"),
]
GENERATED_BY = {"bitflags", "__impl_bitflags", "__impl_internal_bitflags", "__impl_public_bitflags",
                "__impl_public_bitflags_forward", "Serialize", "Deserialize", "Debug", "Clone", "PartialEq",
                "Default", "Hash", "Eq", "PartialOrd", "Ord", "Message", "Enumeration", "Oneof", "Error"}
# third-party macros whose expansion contains its own unreachable!/unwrap on
# internal invariants (not on user values)
MACRO_INTERNAL = {"select", "join", "try_join", "json", "pin_mut", "pin", "ready", "matches", "async_stream", "stream", "try_stream"}
ASSERT_KINDS = {"BoundsCheck", "DivisionByZero", "RemainderByZero", "Overflow", "OverflowNeg"}


def entry_points(ws):
    ents = {}
    for f in ws.impl_methods(DECODABLE, "decode"):
        ents[f.root] = "Decodable::decode impl"
    for f in ws.find_fns(r"^sos_filesystem::formats::"):
        ents[f.root] = "file format reader"
    for f in ws.find_fns(r"^sos_core::file_identity::"):
        ents[f.root] = "file identity reader"
    for f in ws.find_fns(r"^sos_archive::reader::"):
        ents[f.root] = "archive reader"
    for f in ws.find_fns(r"^sos_server::authenticate::"):
        ents[f.root] = "bearer token parser"
    for f in ws.find_fns(r"^<?sos_net::pairing::share_url::"):
        tr = f.meta.get("trait") or ""
        if tr.endswith("::FromStr") or tr.endswith("::TryFrom") or f.meta.get("name") in ("parse", "from_str", "try_from"):
            ents[f.root] = "pairing URL parser"
    for f in ws.find_fns(r"^<sos_core::[\w:]+ as core::str::traits::FromStr>::from_str$"):
        ents[f.root] = "identifier parser (FromStr)"
    for f in ws.find_fns(r"^<sos_core::[\w:]+ as core::convert::TryFrom<(&\[u8\]|alloc::string::String|alloc::vec::Vec<u8>)>>::try_from$"):
        ents[f.root] = "identifier parser (TryFrom bytes/string)"
    # wire frames parsed outside WireEncodeDecode (no spawn_blocking around them)
    for f in ws.find_fns(r"^sos_protocol::(bindings::relay::RelayPacket::decode_split|decode_uuid)$"):
        ents[f.root] = "wire frame parser"
    for f in ws.find_fns(r"^sos_vault::vault::Header::read_\w+_slice$"):
        ents[f.root] = "vault header reader (slice)"
    for f in ws.find_fns(r"FileSystemEventLog<T, E>.*::(iter|record_stream|load_tree|rewind|diff_records)(::|$)|sos_filesystem::event_log::read_event_buffer"):
        ents[f.root] = "event log file reader"
    return ents


def panic_sites(body, live):
    """(block, kind, detail) panic sites of one body."""
    out = []
    for i in sorted(live):
        t = body.blocks[i].get("term")
        if not t:
            continue
        if t["k"] == "assert":
            if t["msg"] in ASSERT_KINDS:
                d = t["msg"]
                if t.get("op"):
                    d = "%s:%s:%s" % (d, t["op"], t.get("oty", "?"))
                out.append((i, "assert", d))
        elif t["k"] == "call":
            if idioms.is_logging(t):
                continue
            if t.get("exp") and (t.get("macro") or "").rsplit("::", 1)[-1] in MACRO_INTERNAL:
                continue
            c = t.get("resolved") or t.get("callee") or ""
            c2 = t.get("callee") or ""
            if PANIC.search(c2):
                m = (t.get("macro") or "panic").rsplit("::", 1)[-1]
                out.append((i, "panic", m))
            elif UNWRAP.search(c2):
                out.append((i, "unwrap", cname(t)))
            else:
                full = t.get("resolved_full") or t.get("callee_full") or c
                for rx, label in MAY_PANIC:
                    if rx.search(c) or rx.search(c2) or rx.search(full):
                        out.append((i, "may-panic", label + ":" + cname(t)))
                        break
    return out


SIZE_CALLS = re.compile(r"(::len|Iterator::position|Iterator::rposition|Iterator::count|::capacity)$")


def _size_bounded(body, place, defs, seen=None, depth=0):
    """True when every definition of the place's local is (a copy of) the
    result of a call that returns the size of / an index into an in-memory
    collection: such a value is at most isize::MAX."""
    seen = seen if seen is not None else set()
    l = cfg.place_local(place)
    if l in seen or depth > 20:
        return False
    seen.add(l)
    ds = defs.get(l, [])
    if not ds:
        return False
    for (_bi, st, is_term) in ds:
        if is_term:
            if st["k"] != "call" or not SIZE_CALLS.search(st.get("callee") or ""):
                return False
        elif st.get("k") == "use":
            p = cfg.op_place(st["ops"][0])
            if p is None or not _size_bounded(body, p, defs, seen, depth + 1):
                return False
        else:
            return False
    return True


def index_add_is_safe(body, bi):
    """`a + b` on usize cannot overflow when each operand is a small constant
    or a collection size/index (each <= isize::MAX): the only overflow asserts
    discharged without a reviewed table entry."""
    t = body.blocks[bi]["term"]
    if t.get("msg") != "Overflow" or t.get("op") != "Add" or t.get("oty") != "usize":
        return False
    cl = cfg.op_local(t.get("cond"))
    defs = cfg.defs_of(body)
    for s in body.blocks[bi]["s"]:
        if s.get("k") == "bin" and s.get("op") == "AddWithOverflow" and s.get("d") is not None and cfg.place_local(s["d"]) == cl:
            n_const = 0
            for o in s["ops"]:
                c = cfg.op_const(o)
                if c is not None:
                    v = c.get("i")
                    if not isinstance(v, int) or v < 0 or v > 1 << 32:
                        return False
                    n_const += 1
                else:
                    p = cfg.op_place(o)
                    if p is None or not _size_bounded(body, p, defs):
                        return False
            return True
    return False


def r1_panic_reachability(ctx):
    ws = ctx.ws
    r = ctx.rule("C15-R1", "no panic site is reachable from a decoder / reader entry point",
                 floor=60, kind="K9 panic reachability over the workspace call graph")
    ents = entry_points(ws)
    n_dec = len([e for e in ents.values() if e.startswith("Decodable")])
    if n_dec < 30:
        r.anchor_missing("Decodable::decode impls (found %d, 34 on the pinned tree)" % n_dec)
    cg = callgraph.CallGraph(ws)

    def stop(fn):
        return fn.crate in idioms.TEST_CRATES
    parent = cg.reach(sorted(ents), stop=stop)
    roots = {}
    for n in parent:
        roots.setdefault(n[0], n)
    r.note("entry points: %d; functions reachable: %d; (function, type-context) nodes: %d" % (len(ents), len(roots), len(parent)))
    counts = {}
    for root, node in sorted(roots.items()):
        fn = ws.fns.get(root)
        if fn is None or fn.crate in idioms.TEST_CRATES:
            continue
        # code generated by third-party macros (bitflags!, derives) is the
        # macro author's, with constant-bounded loops; not decoding logic
        if fn.meta.get("exp") and (fn.meta.get("macro") or "").rsplit("::", 1)[-1] in GENERATED_BY:
            continue
        for b in fn.bodies:
            live = cfg.live_blocks(b)
            sites = panic_sites(b, live)
            if not sites:
                continue
            for (i, kind, detail) in sites:
                base = "%s|%s:%s" % (root, kind, detail)
                idx = counts.get(base, 0)
                counts[base] = idx + 1
                key = "%s#%d" % (base, idx)
                conds = idioms.dominating_conditions(b, i) if c15_safe.guard_for(root, kind, detail, idx) else None
                safe = c15_safe.lookup(root, kind, detail, idx, conds)
                if not safe and kind == "assert" and index_add_is_safe(b, i):
                    r.ok(key, cfg.loc(b, i), "usize addition of collection sizes/indices and small constants (each <= isize::MAX): cannot overflow", work=1)
                    continue
                if safe:
                    r.ok(key, cfg.loc(b, i), "reviewed safe: " + safe, work=1)
                else:
                    chain = cg.chain(parent, node)
                    r.violation(key, cfg.loc(b, i),
                                "%s (%s) is reachable from entry point %s" % (kind, detail, idioms.short(chain[0], 90)),
                                work=len(chain), witness=" -> ".join(idioms.short(c, 80) for c in chain))
    # every tabled-safe entry must still exist (stale table = drifted anchor)
    for (root, kind, detail, n, reason) in c15_safe.entries():
        have = counts.get("%s|%s:%s" % (root, kind, detail), 0)
        if have < n and root in ws.fns:
            r.note("reviewed-safe entry for %s %s:%s expects %d site(s), found %d" % (root, kind, detail, n, have))
    for root in sorted(ents):
        if root in roots:
            r.ok(root + "|entry", cfg.loc(ws.fns[root].main), "entry point analysed (%s)" % ents[root], work=1)


def r2_wire_contained(ctx):
    ws = ctx.ws
    r = ctx.rule("C15-R2", "protobuf wire conversions run only inside the spawn_blocking closure of WireEncodeDecode::decode",
                 floor=20, kind="K1 who-may-call")
    # TryFrom<Wire*> impls of the protocol bindings
    wire_impls = []
    for i in ws.impls_of("core::convert::TryFrom"):
        if i["crate"] != "sos_protocol":
            continue
        if "Wire" in (i.get("trait_full") or ""):
            for it in i["items"]:
                if it["name"] == "try_from" and it["path"] in ws.fns:
                    wire_impls.append(it["path"])
    if len(wire_impls) < 20:
        r.anchor_missing("TryFrom<Wire*> impls in sos_protocol (found %d)" % len(wire_impls))
        return
    wire_set = set(wire_impls)
    cg = callgraph.CallGraph(ws)
    # which conversions can actually panic (own body or nested conversions)?
    panicky = {}
    for w in wire_impls:
        par = cg.reach([w], stop=lambda fn: fn.crate != "sos_protocol")
        n = 0
        for nd in par:
            fn = ws.fns.get(nd[0])
            if fn is None or fn.crate != "sos_protocol":
                continue
            for b in fn.bodies:
                n += len([x for x in panic_sites(b, cfg.live_blocks(b)) if x[1] in ("unwrap", "panic")])
        panicky[w] = n
    r.note("%d of %d wire conversions contain unwrap()/panic sites" % (len([w for w in panicky if panicky[w]]), len(wire_impls)))
    # callers of wire conversions from outside the conversion layer
    n = 0
    for f in ws.fns.values():
        if f.crate in idioms.TEST_CRATES:
            continue
        inside = f.root in wire_set or re.search(r"sos_protocol::bindings::", f.root) is not None
        for b, i, t in f.calls():
            if i not in cfg.live_blocks(b):
                continue
            tgts, _c = cg.call_targets(t, frozenset())
            hit = [x for x in tgts if x in wire_set and panicky.get(x)]
            if not hit:
                continue
            n += 1
            if inside:
                continue
            # allowed: bodies nested in WireEncodeDecode::decode (the spawn_blocking closure)
            k = "%s|calls-wire-conversion" % f.root
            if re.search(r"WireEncodeDecode", f.root):
                closure = b.kind == "Closure" and b.path != cfg.code_body(ws, f).path
                in_blocking = closure or _inside_spawn_blocking(ws, f, b)
                if in_blocking:
                    r.ok(k + ":" + idioms.short(hit[0], 60), cfg.loc(b, i), "wire conversion inside spawn_blocking", work=1)
                else:
                    r.violation(k, cfg.loc(b, i), "wire conversion in WireEncodeDecode outside the spawn_blocking closure: a panic on a missing field takes the task down", work=1)
            else:
                r.violation(k + ":" + idioms.short(hit[0], 60), cfg.loc(b, i),
                            "a protobuf wire message is converted with try_into() outside WireEncodeDecode::decode: its unwrap()s on absent fields are not contained by spawn_blocking", work=1)
    r.note("%d call sites of TryFrom<Wire*> examined, %d conversion impls" % (n, len(wire_impls)))
    for w in sorted(wire_set):
        r.ok(w + "|contained", cfg.loc(ws.fns[w].main), "conversion impl (%d unwrap/panic sites) has no uncontained caller" % panicky[w], work=1 + panicky[w])


def _inside_spawn_blocking(ws, f, body):
    # is `body` a closure passed to spawn_blocking in its parent?
    par = ws.bodies.get(body.parent) if body.parent else None
    if par is None:
        return False
    for i, t in par.calls():
        if cname(t) == "spawn_blocking":
            for a in t["args"]:
                l = cfg.op_local(a)
                if l is not None and "closure" in par.locals[l]:
                    return True
    return False


def r3_bounded_allocation(ctx):
    ws = ctx.ws
    r = ctx.rule("C15-R3", "readers use the bounded encoding options and no capacity is requested from an unchecked stream value",
                 floor=10, kind="K4 value flow + K1 argument predicate")
    # (a) every BinaryReader::new gets encoding_options()
    n = 0
    for f in ws.fns.values():
        if f.crate in idioms.TEST_CRATES:
            continue
        fg = None
        for b, i, t in f.calls():
            c = t.get("callee") or ""
            if re.search(r"binary_stream::futures::BinaryReader::<.*>::new$", c) and i in cfg.live_blocks(b):
                n += 1
                fg = fg or FlowGraph(ws, f)
                sl = fg.back_from_operand(b, t["args"][-1])
                k = "%s|reader-options" % f.root
                if any(cname(ct) == "encoding_options" for _b, _i, ct in sl.calls):
                    r.ok(k, cfg.loc(b, i), "BinaryReader built with encoding_options() (max_buffer_size set)", work=len(sl.nodes) + 1)
                else:
                    r.violation(k, cfg.loc(b, i), "BinaryReader::new without encoding_options(): length-prefixed reads are unbounded", work=len(sl.nodes) + 1)
    eo = ws.fn("sos_core::encoding::encoding_options")
    if eo:
        has_max = False
        for b in eo.bodies:
            for blk in b.blocks:
                for s in blk["s"]:
                    if s.get("k") == "agg" and "max_buffer_size" in (s.get("fields") or []):
                        idx = s["fields"].index("max_buffer_size")
                        op = s["ops"][idx]
                        # must be Some(..), i.e. not the None aggregate
                        l = cfg.op_local(op)
                        for blk2 in b.blocks:
                            for s2 in blk2["s"]:
                                if s2.get("d") == str(l) and s2.get("k") == "agg" and s2.get("variant") == "Some":
                                    has_max = True
        if has_max:
            r.ok(eo.root + "|max-buffer", cfg.loc(eo.main), "encoding_options sets max_buffer_size: Some(..)", work=1)
        else:
            r.violation(eo.root + "|max-buffer", cfg.loc(eo.main), "encoding_options no longer bounds max_buffer_size", work=1)
    else:
        r.anchor_missing("sos_core::encoding::encoding_options")
    # (b) capacity requests in decoder-reachable code sized by a stream read
    ents = entry_points(ws)
    cg = callgraph.CallGraph(ws)
    parent = cg.reach(sorted(ents), stop=lambda fn: fn.crate in idioms.TEST_CRATES)
    roots = {}
    for nd in parent:
        roots.setdefault(nd[0], nd)
    for root in sorted(roots):
        f = ws.fns[root]
        fg = None
        cnt = 0
        for b, i, t in f.calls():
            if i not in cfg.live_blocks(b):
                continue
            c = t.get("callee") or ""
            is_cap = re.search(r"::with_capacity(_and_hasher)?$|::reserve(_exact)?$|::resize$", c) is not None
            is_vecmacro = re.search(r"alloc::vec::from_elem", c) is not None
            if not (is_cap or is_vecmacro):
                continue
            fg = fg or FlowGraph(ws, f)
            arg = t["args"][-1] if not is_vecmacro else t["args"][-1]
            sl = fg.back_from_operand(b, arg)
            reads = [ct for _b, _i, ct in sl.calls if re.search(r"BinaryReader::<.*>::read_(u8|u16|u32|u64|i64|usize)$", ct.get("callee") or "")
                     or (cname(ct) in ("value", "offset", "byte_length") and "FileItem" in (ct.get("trait") or ct.get("callee") or ""))]
            field_len = [p for (_bb, p) in sl.reads if set(cfg.place_fields(p)) & {"value", "offset"}]
            k = "%s|capacity:%s#%d" % (root, cname(t), cnt)
            cnt += 1
            if reads:
                # bounded by a preceding comparison? (any bool switch fed by the same value before the call)
                guarded = False
                for j in cfg.live_blocks(b):
                    bs = cfg.bool_switch(b, j)
                    if bs and i in cfg.reach(b, [j]):
                        gsl = fg.back([(b.path, bs.local)])
                        if any(x in gsl.calls for x in [c2 for c2 in sl.calls if c2[2] in reads]):
                            guarded = True
                safe = c15_safe.lookup(root, "capacity", cname(t), cnt - 1)
                if guarded or safe:
                    r.ok(k, cfg.loc(b, i), "capacity from a stream value, %s" % ("bounded by a preceding test" if guarded else "reviewed: " + safe), work=len(sl.nodes) + 1)
                else:
                    r.violation(k, cfg.loc(b, i),
                                "`%s` is sized by a value read from the input stream with no bound: a few malformed bytes request gigabytes" % cname(t),
                                work=len(sl.nodes) + 1)
            else:
                r.ok(k, cfg.loc(b, i), "capacity does not derive from a raw stream value", work=len(sl.nodes) + 1)


def r4_unknown_tags_are_errors(ctx):
    ws = ctx.ws
    r = ctx.rule("C15-R4", "in decoders an unknown kind tag ends in Err",
                 floor=7, kind="K6 handler table")
    for f in ws.impl_methods(DECODABLE, "decode"):
        body = cfg.code_body(ws, f)
        live = cfg.live_blocks(body)
        exits = cfg.exits(body)
        okb = {e.block for e in exits if e.kind == "ok"}
        n = 0
        for i in sorted(live):
            t = body.blocks[i].get("term")
            if not t or t["k"] != "switch" or t.get("dty") in ("bool", "isize"):
                continue
            if cfg.enum_switch(body, i) is not None:
                continue
            if not re.match(r"u(8|16|32|64)$", t.get("dty") or ""):
                continue
            if len(t["vals"]) < 2:
                continue
            n += 1
            other = t["otherwise"]
            reach = cfg.reach(body, [other], cut_blocks=[bb for _v, bb in t["vals"]])
            panics = [j for j in reach if panic_sites(body, {j})]
            # does the default arm fall through to the code after the match (silently accepted)?
            k = "%s|tag-switch#%d" % (f.root, n)
            term_other = body.blocks[other].get("term") or {}
            if term_other.get("k") == "unreachable":
                r.ok(k, cfg.loc(body, i), "match on tag is exhaustive over its integer type", work=len(reach))
                continue
            errs = [e for e in exits if e.kind == "err" and e.block in reach]
            if panics:
                r.violation(k, cfg.loc(body, i), "the default arm of a tag match panics instead of returning an error", work=len(reach))
            elif errs:
                r.ok(k, cfg.loc(body, i), "unknown tag -> Err", work=len(reach))
            else:
                r.violation(k, cfg.loc(body, i), "the default arm of a tag match does not return an error: unknown tags are silently accepted", work=len(reach))


def r5_handlers_answer_errors(ctx):
    ws = ctx.ws
    r = ctx.rule("C15-R5", "server request handlers turn errors into responses and do not unwrap request-derived values",
                 floor=15, kind="K2 + K9 local")
    hs = ws.find_fns(r"^sos_server::handlers::(account|files|websocket|relay)::(handlers::)?\w+$") + ws.find_fns(r"^sos_server::handlers::\w+$") + ws.find_fns(r"^sos_server::handlers::(websocket::WebSocketAccount|Caller)::\w+$")
    for f in hs:
        body = cfg.code_body(ws, f)
        live = cfg.live_blocks(body)
        sites = [s for s in panic_sites(body, live) if s[1] in ("panic", "unwrap", "may-panic")]
        k = f.root + "|no-panic-in-handler"
        if sites:
            for (i, kind, detail) in sites:
                safe = c15_safe.lookup(f.root, kind, detail, 0)
                if safe:
                    r.ok(k + ":" + detail, cfg.loc(body, i), "reviewed safe: " + safe, work=1)
                else:
                    r.violation(k + ":" + detail, cfg.loc(body, i), "%s (%s) in a request handler body" % (kind, detail), work=1)
        else:
            r.ok(k, cfg.loc(body), "no unwrap/expect/panic in the handler body", work=len(live))
    if len(hs) < 15:
        r.anchor_missing("server handlers (found %d)" % len(hs))


# extra build configurations analysed in the thorough tier
THOROUGH_CONFIGS = ['server-min', 'protocol-min']


def run(ctx):
    ctx.explanation = (
        "Panic-site reachability over the resolved workspace call graph (with one level of type context for generic "
        "decode helpers): from every Decodable::decode impl, file-format reader, archive reader, token/URL/id parser and "
        "event-log file reader, no call into core::panicking, no unwrap/expect, no bounds/overflow/div Assert terminator "
        "and no tabled may-panic external callee is reachable, except sites listed one by one in tables/c15_safe.py with "
        "a reason. Plus: wire conversions (whose unwraps on absent protobuf fields are real) are reachable only through "
        "the spawn_blocking closure of WireEncodeDecode::decode; every BinaryReader is built with encoding_options(); no "
        "capacity request is sized by an unchecked stream value; unknown tags end in Err; handler bodies do not unwrap. "
        "Hangs (loops bounded by runtime values) are not decided.")
    ctx.trust("binary-stream 10 read_bytes/read_string honour Options.max_buffer_size (read in its source)",
              "external crates not in the may-panic table do not panic on malformed input",
              "tokio::task::spawn_blocking turns a panic into a JoinError")
    r1_panic_reachability(ctx)
    r2_wire_contained(ctx)
    r3_bounded_allocation(ctx)
    r4_unknown_tags_are_errors(ctx)
    r5_handlers_answer_errors(ctx)
