"""C10 — Ciphertext is authenticated, key-bound and never reuses a nonce."""
import re
from .. import cfg, idioms
from ..flow import FlowGraph
from ..idioms import cname

NONCE = "sos_core::crypto::Nonce"
ENCRYPT_FNS = re.compile(r"^sos_core::crypto::cipher::(aes_gcm_256|xchacha20_poly1305)::encrypt$|^sos_core::crypto::cipher::Cipher::encrypt_symmetric$")
NONCE_CTORS_ALLOWED = {
    "sos_core::crypto::Nonce::new_random_12": "fresh random draw",
    "sos_core::crypto::Nonce::new_random_24": "fresh random draw",
    "<sos_core::crypto::Nonce as core::default::Default>::default": "placeholder value overwritten by decode",
}


def r1_nonces_fresh(ctx):
    ws = ctx.ws
    r = ctx.rule("C10-R1", "nonces are fresh random draws from the OS CSPRNG; no caller supplies one",
                 floor=6, kind="K1 argument predicate + who-constructs")
    n = 0
    for f in ws.fns.values():
        if f.crate in idioms.TEST_CRATES:
            continue
        fg = None
        for b, i, t in f.calls():
            if not cfg.call_matches(t, ENCRYPT_FNS) or i not in cfg.live_blocks(b):
                continue
            n += 1
            fg = fg or FlowGraph(ws, f)
            sl = fg.back_from_operand(b, t["args"][-1])
            somes = [s for _b, s in sl.aggs if s.get("adt") == "core::option::Option" and s.get("variant") == "Some"]
            nones = [s for _b, s in sl.aggs if s.get("adt") == "core::option::Option" and s.get("variant") == "None"]
            passthru = sl.has_var(b, "nonce") or sl.has_var(f.main, "nonce")
            k = "%s|nonce-arg@%s" % (f.root, idioms.last_seg(t.get("callee")))
            if somes and not passthru:
                r.violation(k, cfg.loc(b, i), "an explicit nonce is supplied to %s: reuse across encryptions under one key becomes possible" % cname(t), work=len(sl.nodes) + 1)
            elif nones or passthru:
                r.ok(k, cfg.loc(b, i), "nonce argument is %s" % ("None" if nones else "the caller's own parameter"), work=len(sl.nodes) + 1)
            else:
                r.violation(k, cfg.loc(b, i), "cannot show the nonce argument of %s is None" % cname(t), work=len(sl.nodes) + 1)
    if n == 0:
        r.anchor_missing("callers of the symmetric encrypt functions")
    # the default inside each encrypt is a random draw
    for mod, ctor in (("aes_gcm_256", "new_random_12"), ("xchacha20_poly1305", "new_random_24")):
        f = ws.fn("sos_core::crypto::cipher::%s::encrypt" % mod)
        if not f:
            r.anchor_missing("cipher::%s::encrypt" % mod)
            continue
        consts = []
        for b in f.bodies:
            for blk in b.blocks:
                t = blk.get("term")
                if t and t["k"] == "call":
                    for a in t["args"]:
                        c = cfg.op_const(a)
                        if c and "fn" in c:
                            consts.append(c["fn"])
        k = f.root + "|default-nonce"
        if any(c.endswith("Nonce::" + ctor) for c in consts) or any(cname(t) == ctor for _b, _i, t in f.calls()):
            r.ok(k, cfg.loc(f.main), "absent nonce -> Nonce::%s" % ctor, work=1)
        else:
            r.violation(k, cfg.loc(f.main), "%s::encrypt no longer defaults the nonce to Nonce::%s" % (mod, ctor), work=1)
    for ctor in ("new_random_12", "new_random_24"):
        f = ws.fn("sos_core::crypto::Nonce::" + ctor)
        k = "sos_core::crypto::Nonce::%s|csprng" % ctor
        if f and any(cname(t) == "csprng" for _b, _i, t in f.calls()):
            r.ok(k, cfg.loc(f.main), "draws from csprng()", work=1)
        else:
            r.violation(k, cfg.loc(f.main) if f else "-", "Nonce::%s does not draw from csprng()" % ctor, work=1)
    cs = ws.fn("sos_core::csprng")
    if cs:
        txt = " ".join(cs.main.locals) + " " + (cs.meta.get("output") or "")
        aggs = [s.get("adt") for blk in cs.main.blocks for s in blk["s"] if s.get("k") == "agg"]
        if "OsRng" in txt or any("OsRng" in (a or "") for a in aggs):
            r.ok("sos_core::csprng|os-rng", cfg.loc(cs.main), "csprng() is OsRng", work=1)
        else:
            r.violation("sos_core::csprng|os-rng", cfg.loc(cs.main), "csprng() no longer returns the operating system RNG", work=1)
    else:
        r.anchor_missing("sos_core::csprng")
    # who constructs a Nonce
    for f in ws.fns.values():
        if f.crate in idioms.TEST_CRATES:
            continue
        for b in f.bodies:
            for j in cfg.live_blocks(b):
                for s in b.blocks[j]["s"]:
                    if s.get("k") == "agg" and s.get("adt") == NONCE:
                        k = "%s|constructs-nonce" % f.root
                        if f.root in NONCE_CTORS_ALLOWED:
                            r.ok(k, cfg.loc(b, j), NONCE_CTORS_ALLOWED[f.root], work=1)
                        elif re.search(r"(Decodable|Deserialize|TryFrom|From<)", f.root) or (f.meta.get("exp") and "Clone" in (f.meta.get("macro") or "")):
                            r.ok(k, cfg.loc(b, j), "decoder / conversion / derived Clone of a stored nonce", work=1)
                        else:
                            r.violation(k, cfg.loc(b, j), "a Nonce is constructed outside the random constructors and decoders", work=1)


def r2_decrypt_only_from_aead(ctx):
    ws = ctx.ws
    r = ctx.rule("C10-R2", "decrypt returns data only from the AEAD, gated on the nonce length; encrypt and decrypt use the same cipher",
                 floor=6, kind="K2 + K5")
    for mod, variant, cipher in (("aes_gcm_256", "Nonce12", "Aes256Gcm"), ("xchacha20_poly1305", "Nonce24", "XChaCha20Poly1305")):
        d = ws.fn("sos_core::crypto::cipher::%s::decrypt" % mod)
        e = ws.fn("sos_core::crypto::cipher::%s::encrypt" % mod)
        if not d or not e:
            r.anchor_missing("cipher::%s::{encrypt,decrypt}" % mod)
            continue
        body = cfg.code_body(ws, d)
        dec = [i for i, t in idioms.real_calls(body) if t.get("method") == "decrypt" and "Aead" in (t.get("trait") or "")]
        k = d.root + "|aead-decrypt"
        if not dec:
            r.violation(k, cfg.loc(body), "decrypt does not call Aead::decrypt", work=1)
            continue
        sws = [es for es in cfg.enum_switches(body) if es.enum == NONCE]
        gated = False
        for es in sws:
            if variant in es.targets:
                cut = {(es.block, es.targets[variant])}
                if all(x not in cfg.reach(body, [0], cut_edges=cut) for x in dec):
                    gated = True
        if gated:
            r.ok(d.root + "|nonce-gate", cfg.loc(body, dec[0]), "Aead::decrypt only under Nonce::%s" % variant, work=len(body.blocks))
        else:
            r.violation(d.root + "|nonce-gate", cfg.loc(body, dec[0]), "Aead::decrypt is reachable without the Nonce::%s length gate" % variant, work=len(body.blocks))
        fg = FlowGraph(ws, d)
        oks = [x for x in cfg.exits(body) if x.kind == "ok"]
        good = True
        for x in oks:
            sl = fg.back_from_operand(body, x.payload[0])
            if not any(ct.get("method") == "decrypt" and "Aead" in (ct.get("trait") or "") for _b, _i, ct in sl.calls):
                good = False
        if oks and good:
            r.ok(d.root + "|ok-from-aead", cfg.loc(body), "the only Ok value is the AEAD's output", work=len(oks))
        else:
            r.violation(d.root + "|ok-from-aead", cfg.loc(body), "decrypt can return Ok with bytes that did not come out of Aead::decrypt", work=len(oks))
        # same cipher type both ways, and the key parameter is used
        def cipher_types(f):
            out = set()
            for _b, _i, t in f.calls():
                for m in re.finditer(r"(Aes256Gcm|Aes128Gcm|XChaCha20Poly1305|ChaCha20Poly1305|AesGcm<[^>]*>|ChaChaPoly1305<[^>]*>)", (t.get("callee_full") or "") + " " + (t.get("resolved_full") or "")):
                    out.add(m.group(1))
            return out
        te, td = cipher_types(e), cipher_types(d)
        k = "sos_core::crypto::cipher::%s|same-cipher" % mod
        if te and te == td:
            r.ok(k, cfg.loc(e.main), "encrypt and decrypt both instantiate %s" % sorted(te), work=1)
        else:
            r.violation(k, cfg.loc(e.main), "encrypt instantiates %s but decrypt %s" % (sorted(te), sorted(td)), work=1)
        for f in (e, d):
            fb = cfg.code_body(ws, f)
            fg2 = FlowGraph(ws, f)
            ks = [(i, t) for i, t in idioms.real_calls(fb) if cname(t) == "new_from_slice"
                  or (cname(t) == "new" and "KeyInit" in ((t.get("trait") or "") + (t.get("callee") or "")))]
            k = f.root + "|keyed-by-parameter"
            if ks and fg2.back_from_operand(fb, ks[0][1]["args"][0]).has_var(fb, "key"):
                r.ok(k, cfg.loc(fb, ks[0][0]), "cipher keyed with the `key` parameter", work=1)
            else:
                r.violation(k, cfg.loc(fb), "the cipher is not keyed with the `key` parameter", work=1)
    # Cipher::{encrypt,decrypt}_symmetric dispatch to the same module per variant
    maps = {}
    for name in ("encrypt_symmetric", "decrypt_symmetric"):
        f = ws.fn("sos_core::crypto::cipher::Cipher::" + name)
        if not f:
            r.anchor_missing("Cipher::" + name)
            return
        body = cfg.code_body(ws, f)
        m = {}
        for es in cfg.enum_switches(body):
            if es.enum != "sos_core::crypto::cipher::Cipher":
                continue
            for v, tgt in es.targets.items():
                mine = cfg.reach(body, [tgt], cut_blocks=[es.block])
                others = set()
                for w, t2 in es.targets.items():
                    if w != v:
                        others |= cfg.reach(body, [t2], cut_blocks=[es.block])
                for j in mine - others:
                    t = body.blocks[j].get("term")
                    if t and t["k"] == "call":
                        mm = re.search(r"cipher::(\w+)::(encrypt|decrypt)$", t.get("callee") or "")
                        if mm:
                            m[v] = mm.group(1)
        maps[name] = m
    k = "sos_core::crypto::cipher::Cipher|symmetric-dispatch"
    if maps["encrypt_symmetric"] and maps["encrypt_symmetric"] == maps["decrypt_symmetric"]:
        r.ok(k, "-", "variant -> module: %s in both directions" % maps["encrypt_symmetric"], work=2)
    else:
        r.violation(k, "-", "encrypt dispatch %s differs from decrypt dispatch %s" % (maps["encrypt_symmetric"], maps["decrypt_symmetric"]), work=2)


def r3_key_derivation(ctx):
    ws = ctx.ws
    r = ctx.rule("C10-R3", "the derived key depends on password, salt and seed; new vault keys use a fresh random salt",
                 floor=4, kind="K4 value flow")
    tr = ws.traits.get("sos_core::crypto::key_derivation::Deriver")
    f = None
    if tr:
        for it in tr["items"]:
            if it["name"] == "derive":
                f = ws.fns.get(it["path"])
    if not f:
        r.anchor_missing("Deriver::derive default body")
    else:
        body = cfg.code_body(ws, f)
        fg = FlowGraph(ws, f)
        sl = fg.back([(body.path, 0)])
        for p in ("password", "salt", "seed"):
            k = "%s|depends-on:%s" % (f.root, p)
            if sl.has_var(body, p):
                r.ok(k, cfg.loc(body), "returned key depends on `%s`" % p, work=len(sl.nodes))
            else:
                r.violation(k, cfg.loc(body), "the derived key does not depend on `%s`" % p, work=len(sl.nodes))
        # path-sensitive half: the bytes handed to hash_password contain the password on
        # EVERY path, and the seed on every path on which a seed is present
        live = cfg.live_blocks(body)
        hcalls = [(i, t) for i, t in idioms.real_calls(body, live) if cname(t) == "hash_password"]
        if hcalls:
            hi, ht = hcalls[0]
            hsl = fg.back_from_operand(body, ht["args"][1] if len(ht["args"]) > 1 else ht["args"][0])
            hnodes = hsl.nodes

            # the buffer object handed to hash_password: follow `buffer.as_slice()` / `&buffer` back
            defs_ = cfg.defs_of(body)

            def base_local(place, depth=0):
                l = cfg.place_local(place)
                ds = defs_.get(l, [])
                if depth > 6 or len(ds) != 1:
                    return l
                _bi, st, is_term = ds[0]
                if is_term and st.get("k") == "call" and cname(st) in ("as_slice", "as_ref", "deref", "as_bytes", "borrow") and st.get("args"):
                    p2 = cfg.op_place(st["args"][0])
                    return base_local(p2, depth + 1) if p2 else l
                if not is_term and st.get("k") in ("ref", "refmut"):
                    return base_local(st["p"], depth + 1)
                if not is_term and st.get("k") == "use" and cfg.op_place(st["ops"][0]):
                    return base_local(cfg.op_place(st["ops"][0]), depth + 1)
                return l
            harg = ht["args"][1] if len(ht["args"]) > 1 else ht["args"][0]
            B = base_local(cfg.op_place(harg)) if cfg.op_place(harg) else None
            # every local that is moved into B (`let buffer = { let mut b = ..; b }`)
            bufs = {B}
            changed = True
            while changed:
                changed = False
                for x in list(bufs):
                    for (_bi, st, is_term) in defs_.get(x, []):
                        if not is_term and st.get("k") == "use" and cfg.op_place(st["ops"][0]) and "." not in cfg.op_place(st["ops"][0]):
                            y = cfg.place_local(cfg.op_place(st["ops"][0]))
                            if y not in bufs:
                                bufs.add(y)
                                changed = True

            def is_buf_ref(op):
                p_ = cfg.op_place(op)
                if p_ is None:
                    return False
                l = cfg.place_local(p_)
                if l in bufs:
                    return True
                ds = defs_.get(l, [])
                return len(ds) == 1 and not ds[0][2] and ds[0][1].get("k") == "refmut" and cfg.place_local(ds[0][1]["p"]) in bufs

            def write_sites(var):
                out = set()
                for i in live:
                    t_ = body.blocks[i].get("term") or {}
                    if t_.get("k") != "call" or not t_.get("args"):
                        continue
                    into_buf = (t_.get("dest") and "." not in t_["dest"] and cfg.place_local(t_["dest"]) in bufs) or any(is_buf_ref(a) for a in t_["args"])
                    if not into_buf or cname(t_) in ("with_capacity", "reserve", "reserve_exact", "new", "len", "as_slice", "clear"):
                        continue
                    others = [a for a in t_["args"] if not is_buf_ref(a)]
                    if any(fg.back_from_operand(body, a).has_var(body, var) for a in others):
                        out.add(i)
                return out
            pw_sites = write_sites("password")
            k = f.root + "|password-on-every-path"
            if not pw_sites or hi in cfg.reach(body, [0], cut_blocks=pw_sites):
                p_ = cfg.find_path(body, [0], [hi], cut_blocks=pw_sites)
                r.violation(k, cfg.loc(body, hi), "hash_password can be reached on a path on which the password never entered its input: on that path (e.g. when a seed is present) the key does not depend on the password", work=len(live), witness=cfg.path_lines(body, p_))
            else:
                r.ok(k, cfg.loc(body, hi), "every path to hash_password writes the password into its input", work=len(live))
            seed_sites = write_sites("seed")
            some_edges = set()
            for es in cfg.enum_switches(body):
                if es.enum == "core::option::Option" and "Some" in es.targets and body.var_name(cfg.place_local(es.place)) == "seed":
                    some_edges.add(es.targets["Some"])
            k = f.root + "|seed-on-every-seeded-path"
            if some_edges:
                if hi in cfg.reach(body, sorted(some_edges), cut_blocks=seed_sites):
                    r.violation(k, cfg.loc(body, hi), "with a seed present, hash_password can be reached without the seed having entered its input", work=len(live))
                else:
                    r.ok(k, cfg.loc(body, hi), "on the Some(seed) path the seed is written into the hash input", work=len(live))
        if any(cname(t) == "hash_password" for _b, _i, t in f.calls()):
            r.ok(f.root + "|kdf", cfg.loc(body), "goes through hash_password (Argon2id / Balloon)", work=1)
        else:
            r.violation(f.root + "|kdf", cfg.loc(body), "derive no longer calls the password hashing function", work=1)
    # call-site half: every caller hands the vault's seed on (a literal `None`
    # makes the key independent of the seed although derive itself is intact)
    DER = re.compile(r"key_derivation::Deriver(<.*>)?::derive$|crypto::private_key::AccessKey::into_private$")
    ncall = 0
    seen_k = {}
    for (cf, cb, ci, ct) in sorted(idioms.callers_of(ws, DER, exclude_crates=idioms.TEST_CRATES), key=lambda x: (x[0].root, x[1].path, x[2])) if False else idioms.callers_of(ws, DER, exclude_crates=idioms.TEST_CRATES):
        if len(ct.get("args") or []) != 4:
            continue
        ncall += 1
        cfg_ = FlowGraph(ws, cf)
        ssl = cfg_.back_from_operand(cb, ct["args"][3])
        src = (any(cname(x) in ("seed", "generate_seed") for _b, _i, x in ssl.calls)
               or bool(ssl.reads_field("seed"))
               or any(cfg.place_fields(p)[-1:] == ["seed"] for _b, p in ssl.reads)
               or any(isinstance(key, int) and (bb.vars.get(str(key)) == "seed") for bb in cf.bodies for (bp, key) in ssl.nodes if bp == bb.path))
        seen_k[(cf.root, cname(ct))] = seen_k.get((cf.root, cname(ct)), 0) + 1
        k = "%s|seed-handed-to:%s#%d" % (cf.root, cname(ct), seen_k[(cf.root, cname(ct))])
        if src:
            r.ok(k, cfg.loc(cb, ci), "the seed argument comes from the vault's seed / the caller's seed", work=len(ssl.nodes))
        else:
            r.violation(k, cfg.loc(cb, ci), "`%s` is called with a seed argument that does not come from the vault's seed (a constant None?): the key no longer depends on the seed, two vaults with the same password and salt share a key" % cname(ct), work=len(ssl.nodes))
    if ncall < 6:
        r.anchor_missing("callers of Deriver::derive / AccessKey::into_private (found %d, confirmed 6 by hand)" % ncall)
    sym = ws.find_fns(r"^sos_vault::vault::Vault::symmetric$")
    if sym:
        names = {cname(t) for _b, _i, t in sym[0].calls()}
        k = sym[0].root + "|fresh-salt"
        if "generate_salt" in names:
            r.ok(k, cfg.loc(sym[0].main), "Vault::symmetric draws a new salt", work=1)
        else:
            r.violation(k, cfg.loc(sym[0].main), "Vault::symmetric does not generate a fresh salt", work=1)
    else:
        r.anchor_missing("Vault::symmetric")
    gs = ws.find_fns(r"key_derivation::KeyDerivation::generate_salt$")
    if gs and any(cname(t) == "csprng" for _b, _i, t in gs[0].calls()):
        r.ok(gs[0].root + "|csprng", cfg.loc(gs[0].main), "salt drawn from csprng()", work=1)
    elif gs:
        r.violation(gs[0].root + "|csprng", cfg.loc(gs[0].main), "salt is not drawn from csprng()", work=1)


def _key_field_stores(body):
    """(block, 'Some'|'None'|'other') for assignments to a `private_key` field."""
    out = []
    for j in sorted(cfg.live_blocks(body)):
        for s in body.blocks[j]["s"]:
            d = s.get("d")
            if d and "private_key" in cfg.place_fields(d) and s["k"] not in ("ref", "refmut"):
                kind = "other"
                if s.get("k") == "agg" and s.get("adt") == "core::option::Option":
                    kind = s["variant"]
                elif s.get("k") == "use" and s.get("ops"):
                    l = cfg.op_local(s["ops"][0])
                    if l is not None:
                        for blk in body.blocks:
                            for s2 in blk["s"]:
                                if s2.get("d") == str(l) and s2.get("k") == "agg" and s2.get("adt") == "core::option::Option":
                                    kind = s2["variant"]
                out.append((j, kind))
    return out


def r4_unlock_is_verification(ctx):
    ws = ctx.ws
    r = ctx.rule("C10-R4", "a key is kept by the access point only if it decrypted the vault meta; Vault::verify fails on a wrong key",
                 floor=3, kind="K2 typestate")
    fns = [f for f in ws.fns.values() if re.search(r"AccessPoint<E> as sos_vault::access_point::SecretAccess>::unlock$", f.root)]
    if not fns:
        r.anchor_missing("AccessPoint::unlock")
    for f in fns:
        body = cfg.code_body(ws, f)
        stores = [(j, k) for j, k in _key_field_stores(body) if k != "None"]
        clears = [j for j, k in _key_field_stores(body) if k == "None"]
        vers = [i for i, t in idioms.real_calls(body) if cname(t) in ("vault_meta", "verify", "decrypt")]
        if not vers:
            r.violation(f.root + "|verifies", cfg.loc(body), "unlock does not test the key by decrypting the vault meta", work=1)
            continue
        if not stores:
            r.violation(f.root + "|stores", cfg.loc(body), "unlock never stores the derived key", work=1)
            continue
        for idx, (sj, _k) in enumerate(stores):
            # option A: the store is dominated by a successful verification
            dominated = False
            for v in vers:
                rb = idioms.result_branches(body, v)
                if rb and sj not in cfg.reach(body, [0], cut_blocks=rb[0]):
                    dominated = True
            # option B: every exit behind a failed verification clears the key
            cleared = False
            vs_after = [v for v in vers if v in cfg.reach(body, [sj])]
            if vs_after and clears:
                ok_all = True
                for v in vs_after:
                    rb = idioms.result_branches(body, v)
                    if not rb:
                        ok_all = False
                        continue
                    exits = [e.block for e in cfg.exits(body)]
                    leak = [e for e in exits if e in cfg.reach(body, rb[1], cut_blocks=clears)]
                    if leak:
                        ok_all = False
                cleared = ok_all
            k = "%s|key-store#%d" % (f.root, idx)
            if dominated or cleared:
                r.ok(k, cfg.loc(body, sj), "key kept only after verification (%s)" % ("store dominated by success" if dominated else "cleared on failure"), work=len(body.blocks))
            else:
                r.violation(k, cfg.loc(body, sj),
                            "unlock stores the derived key before verifying it and returns the verification error without clearing it: after a failed unlock the access point encrypts under the wrong key",
                            work=len(body.blocks))
    vf = ws.find_fns(r"^sos_vault::vault::Vault::verify$")
    if vf:
        body = cfg.code_body(ws, vf[0])
        dec = [i for i, t in idioms.real_calls(body) if cname(t) == "decrypt"]
        oks = [e.block for e in cfg.exits(body) if e.kind == "ok"]
        k = vf[0].root + "|ok-needs-decrypt"
        good = False
        for d in dec:
            rb = idioms.result_branches(body, d)
            if rb and not any(o in cfg.reach(body, [0], cut_blocks=rb[0]) for o in oks):
                good = True
        if good:
            r.ok(k, cfg.loc(body), "Ok only after the meta decrypted with the derived key", work=len(body.blocks))
        else:
            r.violation(k, cfg.loc(body), "Vault::verify can return Ok without a successful decrypt", work=len(body.blocks))
    else:
        r.anchor_missing("Vault::verify")


def r5_one_key_per_folder(ctx):
    ws = ctx.ws
    r = ctx.rule("C10-R5", "every encryption and decryption in the access point uses the stored folder key",
                 floor=6, kind="K4 value flow")
    n = 0
    for f in ws.fns.values():
        if not re.search(r"sos_vault::access_point::AccessPoint<E>", f.root) or f.crate in idioms.TEST_CRATES:
            continue
        fg = None
        cnt = {}
        for b, i, t in f.calls():
            if not re.search(r"vault::Vault::(encrypt|decrypt)$", t.get("callee") or "") or i not in cfg.live_blocks(b):
                continue
            n += 1
            fg = fg or FlowGraph(ws, f)
            sl = fg.back_from_operand(b, t["args"][1])
            op = cname(t)
            cnt[op] = cnt.get(op, 0) + 1
            k = "%s|%s#%d-key" % (f.root, op, cnt[op])
            if sl.reads_field("private_key") or sl.has_var(b, "private_key"):
                r.ok(k, cfg.loc(b, i), "%s keyed by self.private_key" % op, work=len(sl.nodes))
            else:
                r.violation(k, cfg.loc(b, i), "%s in the access point is not keyed by the stored folder key" % op, work=len(sl.nodes))
    if n == 0:
        r.anchor_missing("Vault::encrypt/decrypt calls in AccessPoint")


SWALLOW = re.compile(r"core::result::Result::<.*>::(ok|unwrap_or|unwrap_or_else|unwrap_or_default|or|or_else|is_ok|is_err)$")


def r6_decrypt_errors_propagate(ctx):
    """An authentication / truncation / stream error anywhere on a decryption
    path must end the call in Err: no failure branch of a fallible call inside a
    decrypt function may reach an Ok return (e.g. `while let Ok(n) = read()`)."""
    ws = ctx.ws
    r = ctx.rule("C10-R6", "no error on a decryption path is swallowed: the failure branch of every fallible call in a decrypt function ends in Err",
                 floor=15, kind="K2 error discipline (exit reachability from Err edges)")
    fns = [fn for root, fn in sorted(ws.fns.items())
           if "decrypt" in idioms.last_seg(root) and fn.crate not in idioms.TEST_CRATES]
    if len(fns) < 10:
        r.anchor_missing("decrypt functions (found %d, 14 on the pinned tree)" % len(fns))
    for fn in fns:
        for b in fn.bodies:
            live = cfg.live_blocks(b)
            oks = {e.block for e in cfg.exits(b) if e.kind == "ok"}
            n = 0
            for i, t in idioms.real_calls(b, live):
                full = t.get("callee_full") or t.get("callee") or ""
                k = "%s|%s#%d" % (fn.root, cname(t), n)
                if SWALLOW.search(full) or SWALLOW.search(t.get("callee") or ""):
                    n += 1
                    r.violation(k, cfg.loc(b, i), "a Result is converted with `%s` inside a decrypt function: a decryption failure is turned into a value" % cname(t), work=1)
                    continue
                rb = idioms.result_branches(b, i)
                if rb is None:
                    continue
                n += 1
                _okb, errb = rb
                bad = cfg.reach(b, errb) & oks
                if bad:
                    p_ = cfg.find_path(b, errb, sorted(bad))
                    r.violation(k, cfg.loc(b, i),
                                "the failure branch of `%s` reaches an Ok return: a decryption/authentication error yields data instead of an error" % cname(t),
                                work=len(live), witness=cfg.path_lines(b, p_))
                else:
                    r.ok(k, cfg.loc(b, i), "failure of `%s` ends in Err on every path" % cname(t), work=len(live))


def run(ctx):
    ctx.explanation = (
        "Sourcing rules for nonces, keys and plaintext results: (R1) every caller of the symmetric encrypt functions "
        "passes None, the default is Nonce::new_random_{12,24} drawing from csprng()=OsRng, and Nonce values are built "
        "only there and in decoders; (R2) each decrypt calls the AEAD only behind the matching nonce-length variant and "
        "returns nothing else, with the same cipher type and the key parameter in both directions, and the Cipher enum "
        "dispatches each variant to one module both ways; (R3) the derived key depends on password, salt and seed and "
        "new keys get a random salt; (R4) the access point keeps a key only if it decrypted the vault meta; (R5) all "
        "access-point encryption uses the stored key; (R6) in every decrypt function the failure branch of every fallible call ends in Err (no swallowed authentication or stream error). AEAD tamper rejection and nonce collision probability are properties "
        "of the cipher crates and not decided.")
    ctx.trust("aes-gcm / chacha20poly1305 AEAD implementations authenticate", "rand OsRng", "argon2 / balloon-hash")
    r1_nonces_fresh(ctx)
    r2_decrypt_only_from_aead(ctx)
    r3_key_derivation(ctx)
    r4_unlock_is_verification(ctx)
    r5_one_key_per_folder(ctx)
    r6_decrypt_errors_propagate(ctx)
