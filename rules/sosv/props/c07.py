"""C07 — Patches apply only on the agreed base; a refused merge changes nothing."""
import re
from .. import cfg, idioms
from ..flow import FlowGraph
from ..idioms import EVENTLOG, cname, is_noise

COMPARISON = "sos_core::commit::proof::Comparison"
CHECKED_PATCH = "sos_core::events::patch::CheckedPatch"

# Methods of an event log that change storage or tree.
MUTATORS = {"patch_unchecked", "apply_records", "apply", "insert_records", "clear",
            "replace_all_events", "rewind", "truncate", "delete_all_events",
            "insert_events", "delete_one"}
DESTRUCTIVE = {"clear", "truncate", "delete_all_events"}
RESTORERS = re.compile(r"::(try_rollback_snapshot|rollback_snapshot|restore_snapshot)$")
ROLLBACK = re.compile(r"rollback_rewind")
REVERSERS = {"reverse", "rev", "sort_by", "sort_by_key", "sort"}


def log_impl_methods(ws, method):
    return ws.impl_methods(EVENTLOG, method)


def is_delegate(body, method):
    """Enum-dispatch impl: every real call is the same-named method on the
    inner value."""
    names = [cname(t) for _i, t in idioms.real_calls(body, cfg.live_blocks(body))]
    names = [n for n in names if n not in ("pin", "new")]
    return bool(names) and all(n == method for n in names)


def r1_gate(ctx):
    ws = ctx.ws
    r = ctx.rule("C07-R1", "patch_checked mutates only under Comparison::Equal with the given proof",
                 floor=3, kind="K2 edge dominance + K4 value flow")
    fns = log_impl_methods(ws, "patch_checked")
    if not fns:
        r.anchor_missing("impls of EventLog::patch_checked")
        return
    for fn in fns:
        body = cfg.code_body(ws, fn)
        where = cfg.loc(body)
        key = fn.root
        if is_delegate(body, "patch_checked"):
            r.ok(key + "|delegate", where, "enum dispatch: delegates to the inner patch_checked only",
                 work=len(body.blocks))
            continue
        live = cfg.live_blocks(body)
        muts = [(i, t) for i, t in idioms.real_calls(body, live) if cname(t) in MUTATORS]
        sws = cfg.enum_switches(body, re.compile(re.escape(COMPARISON) + "$"))
        if not muts:
            r.violation(key + "|no-mutation", where,
                        "patch_checked neither applies the patch nor delegates: the accept path is gone",
                        work=len(body.blocks))
            continue
        if not sws:
            r.violation(key + "|no-gate", where,
                        "patch_checked applies records without switching on the Comparison verdict",
                        work=len(body.blocks))
            continue
        fg = FlowGraph(ws, fn)
        # (a) the verdict comes from compare(<the commit_proof parameter>)
        gate_ok = False
        for es in sws:
            sl = fg.back([fg.key(body, es.place)])
            cmps = sl.calls_matching(re.compile(r"CommitTree::compare$"))
            for (cb, ci, ct) in cmps:
                if len(ct["args"]) >= 2:
                    asl = fg.back_from_operand(cb, ct["args"][1])
                    if asl.has_var(cb, "commit_proof") or any(
                            cb.vars.get(k) == "commit_proof" for k in cb.vars
                            if (cb.path, "c" + k.split(".f")[-1].rstrip(":")) in asl.nodes):
                        gate_ok = True
        if gate_ok:
            r.ok(key + "|gate-source", where, "verdict derives from tree.compare(commit_proof)",
                 work=len(fg.dep))
        else:
            r.violation(key + "|gate-source", where,
                        "the Comparison switched on does not derive from CommitTree::compare(<commit_proof parameter>)",
                        work=len(fg.dep))
        # (b) each mutating call is reachable only through the Equal edge
        for (mi, mt) in muts:
            cut = set()
            for es in sws:
                if "Equal" in es.targets:
                    cut.add((es.block, es.targets["Equal"]))
            reachable = mi in cfg.reach(body, [0], cut_edges=cut)
            k2 = "%s|mutator:%s" % (key, cname(mt))
            if reachable:
                p = cfg.find_path(body, [0], [mi], cut_edges=cut)
                r.violation(k2, cfg.loc(body, mi),
                            "%s is reachable without passing the Comparison::Equal edge (applies a patch on a base the sender did not agree on)" % cname(mt),
                            work=len(body.blocks), witness=cfg.path_lines(body, p))
            else:
                r.ok(k2, cfg.loc(body, mi), "%s only under Comparison::Equal" % cname(mt), work=len(body.blocks))
        # (c) Success is constructed only under Equal
        for i in sorted(live):
            for s in body.blocks[i]["s"]:
                if s.get("k") == "agg" and s.get("adt") == CHECKED_PATCH and s.get("variant") == "Success":
                    cut = {(es.block, es.targets["Equal"]) for es in sws if "Equal" in es.targets}
                    if i in cfg.reach(body, [0], cut_edges=cut):
                        r.violation(key + "|success-outside-equal", cfg.loc(body, i),
                                    "CheckedPatch::Success is produced on a path that does not pass the Equal edge",
                                    work=len(body.blocks))
                    else:
                        r.ok(key + "|success-under-equal", cfg.loc(body, i), "Success only under Equal", work=len(body.blocks))


def r2_replace_all(ctx):
    ws = ctx.ws
    r = ctx.rule("C07-R2", "replace_all_events: a failed checkpoint verification restores the log",
                 floor=3, kind="K2 must-pass-through")
    fns = log_impl_methods(ws, "replace_all_events")
    if not fns:
        r.anchor_missing("impls of EventLog::replace_all_events")
        return
    # EventLog::clear itself: storage erased and tree reset, in every implementation
    for cf in log_impl_methods(ws, "clear"):
        cb = cfg.code_body(ws, cf)
        if is_delegate(cb, "clear"):
            continue
        names = {cname(t) for _i, t in idioms.real_calls(cb)}
        erases = bool(names & {"truncate", "delete_all_events", "set_len", "conn_mut"})
        resets = any(s_.get("d") and "tree" in cfg.place_fields(s_["d"]) and s_.get("k") not in ("ref", "refmut")
                     for blk in cb.blocks for s_ in blk["s"])
        k = cf.root + "|clear-erases-and-resets"
        if erases and resets:
            r.ok(k, cfg.loc(cb), "clear erases the storage and replaces the commit tree", work=len(cb.blocks))
        else:
            r.violation(k, cfg.loc(cb), "EventLog::clear %s" % ("does not reset the in-memory commit tree" if erases else "does not erase the storage"), work=len(cb.blocks))
    # the restoring helper of the file-system log: the snapshot file is moved
    # back first, and only then the in-memory tree is rebuilt from the file
    for rf in ws.find_fns(r"FileSystemEventLog::<.*>::try_rollback_snapshot$"):
        rb = cfg.code_body(ws, rf)
        live_ = cfg.live_blocks(rb)
        ren = [i for i, t in idioms.real_calls(rb, live_) if cname(t) in ("rename", "copy")]
        lt = [i for i, t in idioms.real_calls(rb, live_) if cname(t) == "load_tree"]
        oks_ = [e.block for e in cfg.exits(rb) if e.kind == "ok"]
        k = rf.root + "|restore-then-reload"
        if not ren:
            r.violation(k, cfg.loc(rb), "try_rollback_snapshot no longer moves the snapshot file back", work=len(live_))
        elif not lt:
            r.violation(k, cfg.loc(rb, ren[0]), "after moving the snapshot back the in-memory tree is not rebuilt from the restored file (load_tree): the live log keeps the tree of the refused events, or an empty one", work=len(live_))
        else:
            starts = []
            for x in ren:
                sst, _ = idioms.success_start(rb, x)
                starts.extend(sst)
            early = [x for x in lt if x in cfg.reach(rb, [0], cut_blocks=ren)]
            skipped = [o for o in oks_ if o in cfg.reach(rb, starts, cut_blocks=lt)]
            if early:
                r.violation(k, cfg.loc(rb, early[0]), "load_tree runs before the snapshot file is moved back: the tree is rebuilt from the refused events and then the file is restored, so memory and storage disagree", work=len(live_))
            elif skipped:
                r.violation(k, cfg.loc(rb, ren[0]), "try_rollback_snapshot can return Ok after restoring the file without reloading the tree", work=len(live_))
            else:
                r.ok(k, cfg.loc(rb, lt[0]), "snapshot file moved back, then load_tree, on every Ok path", work=len(live_))
    for fn in fns:
        body = cfg.code_body(ws, fn)
        key = fn.root
        where = cfg.loc(body)
        if is_delegate(body, "replace_all_events"):
            r.ok(key + "|delegate", where, "enum dispatch", work=len(body.blocks))
            continue
        live = cfg.live_blocks(body)
        destructive = []
        for i, t in idioms.real_calls(body, live):
            n = cname(t)
            if n in DESTRUCTIVE:
                destructive.append((i, t, n))
            elif n == "insert_records" and len(t["args"]) >= 3:
                c = cfg.op_const(t["args"][2])
                if c is None or c.get("b") is not False:
                    destructive.append((i, t, "insert_records(delete_before)"))
        # blocks that build the verification error
        verr = []
        for i in sorted(live):
            for s in body.blocks[i]["s"]:
                if s.get("k") == "agg" and s.get("variant") == "CheckpointVerification":
                    verr.append(i)
        if not verr:
            r.violation(key + "|no-verification", where,
                        "replace_all_events never reports CheckpointVerification: the new head is not verified against the checkpoint",
                        work=len(body.blocks))
            continue
        if not destructive:
            r.ok(key + "|verify-before-destroy", where,
                 "no destructive step in this body", work=len(body.blocks))
            continue
        restorers = [i for i, t in idioms.real_calls(body, live) if cfg.call_matches(t, RESTORERS)]
        # the verification outcome: a bool defined by comparing the new head
        # with the checkpoint; paths are examined under `verified == false`
        infeasible = set()
        for i, t in idioms.real_calls(body, live):
            if cname(t) in ("eq", "ne") and "CommitProof" in ((t.get("callee_full") or "") + (t.get("resolved_full") or "")) and "." not in t["dest"]:
                # verification failed: eq -> false, ne -> true
                infeasible |= cfg.infeasible_edges(body, int(t["dest"]), cname(t) == "ne")
        # a `clear` that is not followed by re-applying records puts an
        # initially empty log (no snapshot) back into its previous state
        applies = [i for i, t in idioms.real_calls(body, live) if cname(t) in ("patch_unchecked", "apply_records", "apply", "insert_records")]
        def resets_tree_after(di_):
            after = cfg.reach_after(body, di_, cut_edges=infeasible) | {di_}
            for j in after:
                for s_ in body.blocks[j]["s"]:
                    d_ = s_.get("d")
                    if d_ and "tree" in cfg.place_fields(d_) and s_.get("k") not in ("ref", "refmut"):
                        return True
            return False
        for (di, dt, dn) in list(destructive):
            if dn in DESTRUCTIVE and not any(a in cfg.reach_after(body, di, cut_edges=infeasible) for a in applies):
                # `clear()` erases storage AND resets the tree; a bare truncate / delete of the
                # rows leaves the tree of the refused events in memory and is not a restore
                if dn == "clear" or resets_tree_after(di):
                    restorers.append(di)
                    destructive.remove((di, dt, dn))
                else:
                    r.violation("%s|restore-empty:%s" % (key, dn), cfg.loc(body, di),
                                "on the failed-verification path of an initially empty log the storage is erased with `%s` but the in-memory commit tree is not reset: the log then reports a root and head for events it does not hold" % dn,
                                work=len(body.blocks))
                    destructive.remove((di, dt, dn))
        for (di, dt, dn) in destructive:
            start, _at = idioms.success_start(body, di)
            bad = cfg.find_path(body, start, verr, cut_blocks=restorers, cut_edges=infeasible)
            k2 = "%s|destroy:%s" % (key, dn)
            if bad:
                r.violation(k2, cfg.loc(body, di),
                            "after %s the CheckpointVerification error is returned on a path with no restoring call: a refused replace-all leaves the log replaced" % dn,
                            work=len(body.blocks), witness=cfg.path_lines(body, bad))
            else:
                r.ok(k2, cfg.loc(body, di),
                     "every path from %s to the verification error passes a restore" % dn, work=len(body.blocks))


def rewind_sites(ws):
    """Functions outside the log implementations that rewind a log, with
    wrappers (functions that only return the rewind result) resolved to
    their callers. Returns list of (fn, body, block, term, via)."""
    impl_roots = set()
    for i in ws.impls_of(EVENTLOG):
        for it in i["items"]:
            impl_roots.add(it["path"])
    sites = []
    for f in ws.fns.values():
        if f.root in impl_roots or f.crate in idioms.TEST_CRATES:
            continue
        for b, i, t in f.calls():
            if idioms.is_trait_call(t, EVENTLOG, "rewind") and i in cfg.live_blocks(b):
                sites.append((f, b, i, t, "rewind"))
    # wrappers: no rollback inside, and the function returns the records
    out = []
    by_fn = {}
    for s in sites:
        by_fn.setdefault(s[0].root, []).append(s)
    wrappers = {}
    for root, ss in by_fn.items():
        f = ss[0][0]
        has_rb = any(cfg.call_matches(t, ROLLBACK) or cname(t) == "apply_records" for _b, _i, t in f.calls())
        body = cfg.code_body(ws, f)
        out_ty = (f.meta.get("output") or "")
        returns_records = "EventRecord" in out_ty
        if not has_rb and returns_records:
            wrappers[root] = f
        else:
            out.extend(ss)
    if wrappers:
        rx = re.compile("|".join(re.escape(w) + "$" for w in wrappers))
        for (f, b, i, t) in idioms.callers_of(ws, rx, idioms.TEST_CRATES):
            if i in cfg.live_blocks(b):
                out.append((f, b, i, t, "wrapper " + idioms.last_seg(t.get("callee"))))
    return out, wrappers


def r3_rewind_undone(ctx):
    ws = ctx.ws
    r = ctx.rule("C07-R3", "every exit after a rewind carries Success or passes through the rollback",
                 floor=6, kind="K2 must-pass-through")
    sites, wrappers = rewind_sites(ws)
    if not sites:
        r.anchor_missing("callers of EventLog::rewind outside the log implementations")
        return
    r.note("rewind wrappers: %s" % sorted(wrappers))
    seen = set()
    for (f, b, i, t, via) in sites:
        body = b
        start, at = idioms.success_start(body, i)
        # cut: rollback calls, and the non-Conflict edges of CheckedPatch switches
        rb = [j for j, tt in idioms.real_calls(body) if cfg.call_matches(tt, ROLLBACK)]
        cut_edges = set()
        for es in cfg.enum_switches(body, re.compile(re.escape(CHECKED_PATCH) + "$")):
            for v, tgt in es.targets.items():
                if v != "Conflict":
                    cut_edges.add((es.block, tgt))
            if es.otherwise_live and "Conflict" in es.targets:
                cut_edges.add((es.block, es.otherwise))
        ex = cfg.exits(body)
        reach = cfg.reach(body, start, cut_blocks=rb, cut_edges=cut_edges)
        bad = [e for e in ex if e.block in reach]
        base = "%s|after:%s" % (f.root, via if via != "rewind" else "rewind")
        if not bad:
            k = base + "|all-exits"
            if k not in seen:
                seen.add(k)
                r.ok(k, cfg.loc(body, i), "all exits after the rewind are Success or rolled back", work=len(reach))
            continue
        for e in bad:
            fb, ft = idioms.failing_call_of_exit(body, e.block) if e.kind == "err" else (None, None)
            what = cname(ft) if ft else e.kind
            k = "%s|exit-after:%s" % (f.root, what)
            if k in seen:
                continue
            seen.add(k)
            p = cfg.find_path(body, start, [e.block], cut_blocks=rb, cut_edges=cut_edges)
            r.violation(k, cfg.loc(body, e.block),
                        "an exit (%s%s) is reachable after a completed rewind without Success and without rollback: the log stays truncated when the request fails" % (
                            e.kind, (" of `%s`" % what) if ft else ""),
                        work=len(reach), witness=cfg.path_lines(body, p))


def rewind_order(ws):
    """How each rewind impl orders the records it returns: 'newest-first'
    when pushed during reverse iteration with no reversal before return."""
    out = {}
    for fn in log_impl_methods(ws, "rewind"):
        body = cfg.code_body(ws, fn)
        if is_delegate(body, "rewind"):
            continue
        names = [cname(t) for _i, t in idioms.real_calls(body, cfg.live_blocks(body))]
        rev_iter = False
        for _i, t in idioms.real_calls(body, cfg.live_blocks(body)):
            if cname(t) in ("iter", "record_stream") and t["args"]:
                c = cfg.op_const(t["args"][-1])
                if c is not None and c.get("b") is True:
                    rev_iter = True
        pushes = "push" in names
        undone = any(n in ("reverse", "insert", "rev") for n in names)
        if rev_iter and pushes and not undone:
            out[fn.root] = "newest-first"
        elif rev_iter and undone:
            out[fn.root] = "oldest-first"
        else:
            out[fn.root] = "unknown"
    return out


def r4_rollback_order(ctx):
    ws = ctx.ws
    r = ctx.rule("C07-R4", "rolled-back records are re-applied in their original order",
                 floor=2, kind="K4 taint with sanitizer")
    orders = rewind_order(ws)
    if not orders:
        r.anchor_missing("non-delegating impls of EventLog::rewind")
        return
    kinds = set(orders.values())
    r.note("rewind result order per impl: %s" % orders)
    if len(kinds) != 1 or "unknown" in kinds:
        for root, o in orders.items():
            r.violation(root + "|rewind-order", "-",
                        "rewind implementations disagree on (or hide) the order of the returned records: %s" % orders, work=1)
        return
    order = kinds.pop()
    sites, _w = rewind_sites(ws)
    done = set()
    for (f, b, i, t, via) in sites:
        fg = FlowGraph(ws, f)
        # sinks in this function: apply_records directly, or a workspace callee
        for sb, si, st in f.calls():
            if is_noise(st):
                continue
            n = cname(st)
            sink_body, sink_fn = None, None
            if n == "apply_records":
                arg = st["args"][-1]
                sl = fg.back_from_operand(sb, arg)
                if not any(cb is b and ci == i for cb, ci, _t in sl.calls):
                    continue
                rev = any(cname(ct) in REVERSERS for _cb, _ci, ct in sl.calls)
                k = "%s|direct-apply" % f.root
                if k in done:
                    continue
                done.add(k)
                _verdict(r, k, cfg.loc(sb, si), order, rev, len(sl.nodes))
            elif cfg.call_matches(st, ROLLBACK):
                callee = ws.fns.get(st.get("resolved") or st.get("callee"))
                # which argument carries the records?
                carried = None
                for ai, a in enumerate(st["args"]):
                    sl = fg.back_from_operand(sb, a)
                    if any(cb is b and ci == i for cb, ci, _t in sl.calls):
                        carried = (ai, sl)
                if carried is None or callee is None:
                    continue
                ai, sl = carried
                rev_here = any(cname(ct) in REVERSERS for _cb, _ci, ct in sl.calls)
                cbody = cfg.code_body(ws, callee)
                cfgraph = FlowGraph(ws, callee)
                pname = callee.main.vars.get(str(ai + 1))
                nsinks = 0
                rev_there_all = True
                for tb, ti, tt in callee.calls():
                    if cname(tt) == "apply_records" and not is_noise(tt):
                        tsl = cfgraph.back_from_operand(tb, tt["args"][-1])
                        if pname and not tsl.has_var(tb, pname) and not tsl.has_var(callee.main, pname):
                            continue
                        nsinks += 1
                        if not any(cname(ct) in REVERSERS for _cb, _ci, ct in tsl.calls):
                            rev_there_all = False
                k = "%s|via:%s" % (f.root, idioms.last_seg(st.get("callee")))
                if k in done:
                    continue
                done.add(k)
                if nsinks == 0:
                    r.violation(k, cfg.loc(sb, si),
                                "the rollback helper never re-applies the records it is given", work=len(sl.nodes))
                else:
                    _verdict(r, k, cfg.loc(sb, si), order, rev_here or rev_there_all, len(sl.nodes) + len(cfgraph.dep))


def _verdict(r, key, where, order, reversed_, work):
    if order == "newest-first" and not reversed_:
        r.violation(key, where,
                    "records returned by rewind are newest-first but are re-applied without reversal: rolling back more than one record restores them in the wrong order",
                    work=work)
    elif order == "oldest-first" and reversed_:
        r.violation(key, where,
                    "records returned by rewind are already oldest-first but are reversed before being re-applied", work=work)
    else:
        r.ok(key, where, "rewind returns %s; re-applied %s" % (order, "reversed" if reversed_ else "as is"), work=work)


def r5_replay_after_accept(ctx):
    """Side effects of merge_* implementations happen only on the Success
    edge of the patch_checked verdict, and the verdict returned is that one."""
    ws = ctx.ws
    r = ctx.rule("C07-R5", "merge side effects are dominated by CheckedPatch::Success of patch_checked",
                 floor=6, kind="K2 edge dominance")
    targets = []
    for tr, meths in (("sos_sync::traits::Merge", ("merge_identity", "merge_account", "merge_device", "merge_files", "merge_folder")),
                      ("sos_sync::traits::ForceMerge", ()),
                      ("sos_client_storage::folder_sync::FolderMerge", ("merge",))):
        for m in meths:
            for fn in ws.impl_methods(tr, m):
                targets.append(fn)
    # FolderMerge may live elsewhere: find by method name `merge` on trait named FolderMerge
    for tp in ws.traits:
        if tp.endswith("::FolderMerge"):
            for fn in ws.impl_methods(tp, "merge"):
                if fn not in targets:
                    targets.append(fn)
    if not targets:
        r.anchor_missing("impls of Merge::merge_* / FolderMerge::merge")
        return
    for fn in targets:
        body = cfg.code_body(ws, fn)
        live = cfg.live_blocks(body)
        pcs = [(i, t) for i, t in idioms.real_calls(body, live) if cname(t) == "patch_checked"]
        key = fn.root
        if not pcs:
            # delegates to another merge (e.g. account -> storage); accepted when it calls a same-named/merge method
            names = {cname(t) for _i, t in idioms.real_calls(body, live)}
            if names & {"merge", "merge_identity", "merge_account", "merge_device", "merge_files", "merge_folder"}:
                r.ok(key + "|delegate", cfg.loc(body), "delegates to another merge implementation", work=len(body.blocks))
            else:
                r.violation(key + "|no-patch-checked", cfg.loc(body),
                            "merge implementation applies a diff without patch_checked", work=len(body.blocks))
            continue
        sws = cfg.enum_switches(body, re.compile(re.escape(CHECKED_PATCH) + "$"))
        cut = set()
        for es in sws:
            if "Success" in es.targets:
                cut.add((es.block, es.targets["Success"]))
        effects = []
        for i, t in idioms.real_calls(body, live):
            n = cname(t)
            if n in EFFECTS:
                effects.append((i, t, n))
        if not effects:
            r.ok(key + "|no-effects", cfg.loc(body), "no replay side effects in this body", work=len(body.blocks))
            continue
        if not sws:
            r.violation(key + "|no-switch", cfg.loc(body),
                        "side effects %s are performed without testing the CheckedPatch verdict" % sorted({n for _i, _t, n in effects}),
                        work=len(body.blocks))
            continue
        reach = cfg.reach(body, [0], cut_edges=cut)
        for (i, t, n) in effects:
            k = "%s|effect:%s" % (key, n)
            if i in reach:
                p = cfg.find_path(body, [0], [i], cut_edges=cut)
                r.violation(k, cfg.loc(body, i),
                            "%s runs on a path that does not pass the CheckedPatch::Success edge: a refused merge changes derived state" % n,
                            work=len(body.blocks), witness=cfg.path_lines(body, p))
            else:
                r.ok(k, cfg.loc(body, i), "%s only after Success" % n, work=len(body.blocks))


TREE_DEPENDENT = {"replace_all_events", "patch_checked", "rewind", "diff_checked", "diff_unchecked"}


def r7_fresh_log_is_loaded(ctx):
    """An event log object constructed in a function has an EMPTY in-memory
    tree until load_tree() runs; operations that consult the tree (the
    checkpoint gate, the snapshot decision of replace_all_events, rewind) must
    not be invoked on it before."""
    ws = ctx.ws
    r = ctx.rule("C07-R7", "a freshly opened event log is loaded before any operation that consults its commit tree",
                 floor=2, kind="K2 typestate (opened -> loaded)")
    n = 0
    for f in ws.fns.values():
        if f.crate in idioms.TEST_CRATES:
            continue
        for b in f.bodies:
            live = cfg.live_blocks(b)
            news = [(i, t) for i, t in idioms.real_calls(b, live)
                    if re.search(r"event_log::\w*EventLog", t.get("callee") or "") and cname(t).startswith("new_")]
            if not news:
                continue
            ops = [(i, t) for i, t in idioms.real_calls(b, live) if cname(t) in TREE_DEPENDENT and t.get("trait") == EVENTLOG]
            if not ops:
                continue
            fg = FlowGraph(ws, f)
            loads = [(i, t) for i, t in idioms.real_calls(b, live) if cname(t) == "load_tree" and t.get("trait") == EVENTLOG]
            for (ci, ct) in news:
                start, _at = idioms.success_start(b, ci)
                mine_loads = []
                for (li, lt) in loads:
                    p0 = cfg.op_place(lt["args"][0])
                    if p0 is not None and ci in idioms.origin_calls(b, p0):
                        mine_loads.append(li)
                for (oi, ot) in ops:
                    p0 = cfg.op_place(ot["args"][0])
                    if p0 is None or ci not in idioms.origin_calls(b, p0):
                        continue
                    n += 1
                    k = "%s|%s-on-fresh-log" % (b.root, cname(ot))
                    if oi in cfg.reach(b, start, cut_blocks=mine_loads):
                        r.violation(k, cfg.loc(b, oi),
                                    "`%s` is called on a log opened a few lines above without load_tree(): its tree is empty, so the checkpoint/snapshot logic works on the wrong state (a refused request cannot be rolled back)" % cname(ot),
                                    work=len(live), witness=cfg.path_lines(b, cfg.find_path(b, start, [oi], cut_blocks=mine_loads)))
                    else:
                        r.ok(k, cfg.loc(b, oi), "load_tree precedes %s" % cname(ot), work=len(live))
    if n < 2:
        r.anchor_missing("tree-dependent operations on logs opened in the same function (found %d)" % n)


def r8_unchecked_only_on_empty_log(ctx):
    """Inside merge_* an unchecked application of a remote patch is only
    legitimate as the very first content of an empty log."""
    ws = ctx.ws
    r = ctx.rule("C07-R8", "merge implementations apply a patch without the checkpoint gate only onto an empty log",
                 floor=1, kind="K2 edge dominance")
    n = 0
    for f in ws.fns.values():
        if f.crate in idioms.TEST_CRATES or not re.match(r"merge_(identity|account|device|files|folder)$", f.meta.get("name") or ""):
            continue
        body = cfg.code_body(ws, f)
        live = cfg.live_blocks(body)
        un = [(i, t) for i, t in idioms.real_calls(body, live) if cname(t) in ("patch_unchecked", "apply_records", "apply") and t.get("trait") == EVENTLOG]
        if not un:
            continue
        n += 1
        gates = []
        for i in live:
            bs = cfg.bool_switch(body, i)
            if bs and bs.def_is_term and cname(bs.defn) == "is_empty" and "CommitTree" in (bs.defn.get("callee") or ""):
                gates.append(bs)
        for (ui, ut) in un:
            k = "%s|%s" % (f.root, cname(ut))
            cut = {(g.block, g.true_t) for g in gates}
            if not gates or ui in cfg.reach(body, [0], cut_edges=cut):
                r.violation(k, cfg.loc(body, ui),
                            "%s applies the remote patch with %s on a path that does not require the local log to be empty: a diff against a stale or forged checkpoint is appended and reported as Success" % (f.meta.get("name"), cname(ut)),
                            work=len(live), witness=cfg.path_lines(body, cfg.find_path(body, [0], [ui], cut_edges=cut)))
            else:
                r.ok(k, cfg.loc(body, ui), "unchecked application only under tree().is_empty()", work=len(live))
    if n < 1:
        r.anchor_missing("merge_* implementations with an unchecked first-patch path")


# Calls that change derived state when a merge replays events.
EFFECTS = {"create_secret", "update_secret", "delete_secret", "set_vault_name",
           "set_vault_flags", "set_vault_meta", "import_folder", "delete_folder",
           "remove_folder", "rename_folder", "update_folder_flags", "set_devices",
           "restore_folder", "replay_account_event", "import_login_vault", "add_folder",
           "remove", "prepare", "commit", "insert_folder", "set_folder_name",
           "update_vault", "refresh_vault", "delete_folder_files"}


def run(ctx):
    ctx.explanation = (
        "Static path and value-flow rules over the MIR of every EventLog implementation and of every caller of "
        "rewind / patch_checked / replace_all_events in the workspace: (R1) a patch is applied only on the "
        "Comparison::Equal edge of a comparison with the caller's proof; (R2) every path from a destructive step of "
        "replace_all_events to the CheckpointVerification error passes a restore; (R3) every function exit after a "
        "completed rewind carries Success or passes the rollback; (R4) rolled-back records are re-applied in original "
        "order; (R5) merge side effects are dominated by the Success edge. Decides these structural necessary "
        "conditions on every path of every implementation; does not decide equality of log contents over histories.")
    ctx.trust("rustc nightly MIR construction (mir_built)", "rs_merkle proof verification",
              "callee resolution by rustc Instance::try_resolve")
    ctx.assume("restoring calls are recognised by name (try_rollback_snapshot); rollback helpers by name (rollback_rewind)")
    r1_gate(ctx)
    r2_replace_all(ctx)
    r3_rewind_undone(ctx)
    r4_rollback_order(ctx)
    r5_replay_after_accept(ctx)
    r7_fresh_log_is_loaded(ctx)
    r8_unchecked_only_on_empty_log(ctx)
    # shared with C06-R1: the rewind half of a refused rewind-and-patch must remove
    # exactly the pruned rows (owner-scoped, one row per record), or the rollback
    # cannot restore the log it started from
    from . import c06
    c06.r1_sql_scoping(ctx)
    ctx.rules[-1].id = "C07-R9"
    for inst in ctx.rules[-1].instances:
        inst["rule"] = "C07-R9"
        inst["key"] = inst["key"].replace("C06-R1|", "C07-R9|", 1)
    if ctx.tier == "thorough" and ctx.config == "workspace":
        from .. import witness
        witness.run(ctx, 'C07-R6', 'rewind-and-patch and sync helpers cannot be called through a read guard', {'PatchNeedsWriteGuard': 'event_patch(req, &mut *read_guard)', 'SyncNeedsWriteGuard': 'sync_account(packet, &mut *read_guard)'})
