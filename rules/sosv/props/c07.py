def run(ctx):
    ctx.explanation = "stub"
    r = ctx.rule("C07-R0", "stub", floor=0)
    r.ok("x", "-", "stub")
    r.ok("y", "-", "stub")
