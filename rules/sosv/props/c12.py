"""C12 — Compaction and key changes keep the data and really change the key."""
import re
from .. import cfg, idioms
from ..flow import FlowGraph
from ..idioms import cname

REDUCER = "sos_reducers::folder::FolderReducer"


def r1_reducer_siblings(ctx):
    ws = ctx.ws
    r = ctx.rule("C12-R1", "FolderReducer: compact and build consume every piece of state that reduce collects",
                 floor=2, kind="K5 sibling agreement (field sets)")
    fns = {n: ws.fn("%s::%s" % (REDUCER, n)) for n in ("reduce", "build", "compact")}
    if not all(fns.values()) or REDUCER not in ws.adts:
        r.anchor_missing("FolderReducer::{reduce,build,compact}")
        return
    _rr, written = idioms.fields_touched(ws, fns["reduce"], REDUCER)
    build_reads, _w = idioms.fields_touched(ws, fns["build"], REDUCER)
    compact_reads, _w2 = idioms.fields_touched(ws, fns["compact"], REDUCER)
    control = {"until_commit"}
    state = written - control
    r.note("reduce writes %s; build reads %s; compact reads %s" % (sorted(written), sorted(build_reads), sorted(compact_reads)))
    if len(state) < 4:
        r.violation(REDUCER + "|reduce-state", cfg.loc(fns["reduce"].main), "reduce collects only %s (expected vault, name, flags, meta, secrets)" % sorted(state), work=1)
    for label, reads, fn in (("build", build_reads, fns["build"]), ("compact", compact_reads, fns["compact"])):
        for f in sorted(state):
            k = "%s::%s|consumes:%s" % (REDUCER, label, f)
            if f in reads:
                r.ok(k, cfg.loc(fn.main), "%s reads reducer.%s" % (label, f), work=1)
            else:
                r.violation(k, cfg.loc(fn.main),
                            "FolderReducer::%s never reads `%s`, which reduce collects%s: that part of the folder state is lost" % (
                                label, f, " and build applies" if label == "compact" and f in build_reads else ""),
                            work=1)

    # sibling agreement on HOW the header state is applied: the Some(..) arm of
    # each `if let Some(x) = self.<field>` makes the same calls in both
    def applied(fn):
        body = cfg.code_body(ws, fn)
        out = {}
        for es in cfg.enum_switches(body):
            if es.enum != "core::option::Option" or "Some" not in es.targets:
                continue
            fs = [f for f in cfg.place_fields(es.place) if f in state]
            if not fs:
                continue
            calls = idioms.arm_calls(body, es).get("Some", [])
            regs = idioms.arm_regions(body, es).get("Some", set())
            stores = sorted({"store:" + ".".join(x for x in cfg.place_proj(st["d"]) if x == "*" or x.startswith("f"))
                             for i in regs for st in body.blocks[i]["s"]
                             if st.get("d") and ".*" in st["d"] and st.get("k") in ("use", "agg")})
            out[fs[0]] = (sorted(cname(t) for _i, t in calls) + stores, cfg.loc(body, es.block))
        return out
    ab, ac = applied(fns["build"]), applied(fns["compact"])
    for f in sorted(set(ab) | set(ac)):
        if f == "secrets" or f == "vault":
            continue
        k = "%s|applies-alike:%s" % (REDUCER, f)
        if f in ab and f in ac and ab[f][0] == ac[f][0]:
            r.ok(k, ac[f][1], "build and compact both apply `%s` with %s" % (f, ab[f][0]), work=2)
        else:
            r.violation(k, (ac.get(f) or ab.get(f))[1],
                        "build applies `%s` with %s but compact with %s: the compacted log no longer replays to the folder that build() gives" % (
                            f, (ab.get(f) or [None])[0], (ac.get(f) or [None])[0]), work=2)


def r2_rekey_flows(ctx):
    ws = ctx.ws
    r = ctx.rule("C12-R2", "ChangePassword::build decrypts with the current key, encrypts everything stored with the new key, under a fresh salt",
                 floor=8, kind="K4 value flow + K2")
    fns = ws.find_fns(r"^sos_vault::change_password::ChangePassword(::<.*>)?::build$")
    if not fns:
        r.anchor_missing("ChangePassword::build")
        return
    f = fns[0]
    # the two key derivations: the current key from the OLD vault's kdf/salt/seed
    # (self.vault), the new key from the NEW vault's (the `vault` parameter) only
    for kname, want_old in (("current_private_key", True), ("new_private_key", False)):
        kf = ws.find_fns(r"^sos_vault::change_password::ChangePassword(::<.*>)?::%s$" % kname)
        if not kf:
            r.anchor_missing("ChangePassword::" + kname)
            continue
        kb = kf[0].main
        kfg = FlowGraph(ws, kf[0])
        for i, t in idioms.real_calls(kb):
            if cname(t) != "into_private":
                continue
            for ai, a in enumerate(t["args"][1:], 1):
                sl = kfg.back_from_operand(kb, a)
                reads_old = bool(sl.reads_field("vault", "ChangePassword"))
                k = "%s|into_private-arg%d" % (kf[0].root, ai)
                if reads_old == want_old:
                    r.ok(k, cfg.loc(kb, i), "derivation parameter %d comes from %s" % (ai, "the current vault (self.vault)" if want_old else "the new vault (parameter), not self.vault"), work=len(sl.nodes))
                else:
                    r.violation(k, cfg.loc(kb, i),
                                "%s derives the key with parameter %d taken from %s: the key that re-encrypts the folder does not match what the new header records (a seeded folder cannot be unlocked with either password afterwards)" % (
                                    kname, ai, "the OLD vault (self.vault)" if not want_old else "something other than the current vault"), work=len(sl.nodes))
    body = cfg.code_body(ws, f)
    fg = FlowGraph(ws, f)
    live = cfg.live_blocks(body)
    nd = ne = 0
    for i, t in idioms.real_calls(body, live):
        c = t.get("callee") or ""
        if re.search(r"vault::Vault::decrypt$", c):
            nd += 1
            sl = fg.back_from_operand(body, t["args"][1])
            k = "%s|decrypt#%d-key" % (f.root, nd)
            if any(cname(ct) == "current_private_key" for _b, _i, ct in sl.calls):
                r.ok(k, cfg.loc(body, i), "decrypt uses the current key", work=len(sl.nodes))
            else:
                r.violation(k, cfg.loc(body, i), "a decrypt in ChangePassword::build does not use the current private key", work=len(sl.nodes))
        elif re.search(r"vault::Vault::encrypt$", c):
            ne += 1
            sl = fg.back_from_operand(body, t["args"][1])
            k = "%s|encrypt#%d-key" % (f.root, ne)
            if any(cname(ct) == "new_private_key" for _b, _i, ct in sl.calls):
                r.ok(k, cfg.loc(body, i), "encrypt uses the new key", work=len(sl.nodes))
            else:
                r.violation(k, cfg.loc(body, i), "an encrypt in ChangePassword::build does not use the new private key: blobs stay readable with the old password", work=len(sl.nodes))
    if nd < 3 or ne < 3:
        r.violation(f.root + "|reencrypts-meta-and-entries", cfg.loc(body), "expected 3 decrypts and 3 encrypts (meta, entry meta, entry secret); found %d/%d" % (nd, ne), work=1)
    # stored packs come out of encrypt
    for i, t in idioms.real_calls(body, live):
        n = cname(t)
        if n in ("insert_secret", "set_meta", "commit_hash"):
            packs = t["args"][1:] if n != "commit_hash" else t["args"]
            ok = True
            w = 0
            for a in packs:
                if cfg.op_local(a) is None:
                    continue
                ty = body.locals[cfg.op_local(a)]
                if not re.search(r"AeadPack|VaultEntry|Option<", ty):
                    continue
                sl = fg.back_from_operand(body, a)
                w += len(sl.nodes)
                if not any(re.search(r"vault::Vault::encrypt$", ct.get("callee") or "") for _b, _i, ct in sl.calls):
                    ok = False
            k = "%s|%s-takes-new-ciphertext" % (f.root, n)
            if ok:
                r.ok(k, cfg.loc(body, i), "%s receives freshly encrypted packs" % n, work=w + 1)
            else:
                r.violation(k, cfg.loc(body, i), "%s receives a pack that does not come from new_vault.encrypt: an old-key blob is carried over" % n, work=w + 1)
    idioms.check_sequence(r, ws, f, ["clear_salt", "new_private_key"], "fresh-salt", on_all_ok_paths=True)
    init = idioms.calls_named(body, {"symmetric", "asymmetric"}, live)
    cs = idioms.calls_named(body, {"clear_salt"}, live).get("clear_salt", [])
    for n, blocks in init.items():
        k = "%s|clear_salt-before-%s" % (f.root, n)
        if any(b in cfg.reach(body, [0], cut_blocks=cs) for b in blocks):
            r.violation(k, cfg.loc(body, blocks[0]), "the new vault is keyed (%s) without clearing the old salt first" % n, work=1)
        else:
            r.ok(k, cfg.loc(body, blocks[0]), "clear_salt dominates %s" % n, work=1)


def r3_compaction_sequence(ctx):
    ws = ctx.ws
    r = ctx.rule("C12-R3", "compaction: reduce -> compact -> checkpoint from a temporary log -> replace_all_events; then refresh and account event",
                 floor=6, kind="K2 ordering")
    fns = ws.find_fns(r"^sos_backend::compact::compact_folder$")
    if not fns:
        r.anchor_missing("sos_backend::compact::compact_folder")
    else:
        f = fns[0]
        body = cfg.code_body(ws, f)
        live = cfg.live_blocks(body)
        fg = FlowGraph(ws, f)
        reps = idioms.calls_named(body, {"replace_all_events"}, live).get("replace_all_events", [])
        if len(reps) < 2:
            r.violation(f.root + "|both-backends", cfg.loc(body), "replace_all_events is called in %d of 2 backend arms" % len(reps), work=1)
        for idx, rb in enumerate(reps):
            t = body.blocks[rb]["term"]
            sl = fg.back_from_operand(body, t["args"][-1])
            names = {cname(ct) for _b, _i, ct in sl.calls}
            for need, why in (("compact", "the replacement events"), ("proof", "a checkpoint proof"), ("encode_event", "re-encoded records")):
                k = "%s|arm%d-diff-from-%s" % (f.root, idx, need)
                if need in names:
                    r.ok(k, cfg.loc(body, rb), "diff derives from %s" % need, work=len(sl.nodes))
                else:
                    r.violation(k, cfg.loc(body, rb), "the diff given to replace_all_events does not derive from %s (%s)" % (need, why), work=len(sl.nodes))
            # the checkpoint is taken from a log that was fed the same events
            ap = idioms.calls_named(body, {"apply"}, live).get("apply", [])
            k = "%s|arm%d-temp-log-fed" % (f.root, idx)
            if ap and rb not in cfg.reach(body, [0], cut_blocks=ap):
                r.ok(k, cfg.loc(body, rb), "a temporary log is fed the events before the checkpoint is taken", work=len(live))
            else:
                r.violation(k, cfg.loc(body, rb), "replace_all_events is reachable without applying the compacted events to the temporary log", work=len(live))
    st = None
    tr = ws.traits.get("sos_client_storage::traits::ClientFolderStorage")
    for tp, t in ws.traits.items():
        for it in t["items"]:
            if it["name"] == "compact_folder" and it["path"] in ws.fns and t["crate"] == "sos_client_storage":
                st = ws.fns[it["path"]]
    if st is None:
        r.anchor_missing("client storage compact_folder")
    else:
        idioms.check_sequence(r, ws, st, ["compact_folder", "refresh_vault", "apply"], "storage-compact")


def r4_password_change_complete(ctx):
    ws = ctx.ws
    r = ctx.rule("C12-R4", "change_password: update_vault -> refresh_vault -> unlock(new key) -> save_folder_password -> account event",
                 floor=6, kind="K2/K3 ordering")
    st = None
    for tp, t in ws.traits.items():
        for it in t["items"]:
            if it["name"] == "change_password" and it["path"] in ws.fns and t["crate"] == "sos_client_storage":
                st = ws.fns[it["path"]]
    if st is None:
        r.anchor_missing("client storage change_password")
        return
    idioms.check_sequence(r, ws, st, ["build", "update_vault", "refresh_vault", "save_folder_password", "apply"], "change-password")
    body = cfg.code_body(ws, st)
    fg = FlowGraph(ws, st)
    for i, t in idioms.real_calls(body):
        if cname(t) in ("unlock", "refresh_vault", "save_folder_password"):
            sl = None
            ok = False
            for a in t["args"][1:]:
                sl = fg.back_from_operand(body, a)
                if any(cname(ct) == "build" for _b, _i, ct in sl.calls):
                    ok = True
            k = "%s|%s-uses-new-key" % (st.root, cname(t))
            if ok:
                r.ok(k, cfg.loc(body, i), "%s receives the key returned by ChangePassword::build" % cname(t), work=1)
            else:
                r.violation(k, cfg.loc(body, i), "%s is not given the new key produced by ChangePassword::build" % cname(t), work=1)


COMPARISON = "sos_account::convert::CipherComparison"


def _reads_field(body, bi, fname):
    blk = body.blocks[bi]
    places = []
    for st in blk["s"]:
        if st.get("p"):
            places.append(st["p"])
        for o in st.get("ops", []) or []:
            p_ = cfg.op_place(o)
            if p_:
                places.append(p_)
    t = blk.get("term") or {}
    for o in t.get("args", []) or []:
        p_ = cfg.op_place(o)
        if p_:
            places.append(p_)
    return any(fname in cfg.place_fields(p_) for p_ in places)


def r5_cipher_change_runs(ctx):
    """change_cipher may skip the conversion only when nothing needs converting."""
    ws = ctx.ws
    r = ctx.rule("C12-R5", "change_cipher skips the conversion only when neither the identity folder nor any user folder needs converting",
                 floor=3, kind="K2 dominance (edge) + K5 field coverage")
    ie = ws.fn(COMPARISON + "::is_empty")
    adt = ws.adts.get(COMPARISON)
    if not ie or not adt:
        r.anchor_missing("CipherComparison::is_empty")
        return
    work = [f["name"] for f in adt["variants"][0]["fields"]
            if re.match(r"(core::option::Option|alloc::vec::Vec|std::collections::|indexmap::)", f["ty"])]
    body = ie.main
    live = cfg.live_blocks(body)
    for bi, st, is_term in cfg.defs_of(body).get(0, []):
        if bi not in live:
            continue
        if not is_term and st.get("k") == "use":
            c = cfg.op_const(st["ops"][0])
            if c is not None and c.get("b") is False:
                continue
        for f in work:
            rf = [i for i in live if _reads_field(body, i, f)]
            k = "%s::is_empty|true-needs:%s" % (COMPARISON, f)
            if not rf:
                r.violation(k, cfg.loc(body), "is_empty never looks at `%s`" % f, work=1)
            elif bi in rf or 0 in rf or bi not in cfg.reach(body, [0], cut_blocks=rf):
                r.ok(k, cfg.loc(body, bi), "a non-false answer is given only after `%s` was inspected" % f, work=len(live))
            else:
                r.violation(k, cfg.loc(body, bi),
                            "is_empty can answer true without looking at `%s`: a conversion that still has work in `%s` is treated as empty and change_cipher returns Ok without converting" % (f, f),
                            work=len(live), witness=cfg.path_lines(body, cfg.find_path(body, [0], [bi], cut_blocks=rf)))
    # compare_cipher: a folder needs converting when its cipher OR its KDF differs
    # from the target — the identity test and the folder filter must both look at both
    cfs = ws.find_fns(r"LocalAccount>::compare_cipher$")
    if not cfs:
        r.anchor_missing("LocalAccount::compare_cipher")
    for cf in cfs:
        acc = {}
        for b in cf.bodies:
            names = {cname(t) for _i, t in idioms.real_calls(b) if re.search(r"vault::Summary::(cipher|kdf)$", t.get("callee") or "")}
            if names:
                acc[b.path] = (names, cfg.loc(b))
        if not acc:
            r.anchor_missing("Summary::cipher / Summary::kdf comparisons in compare_cipher")
        for bp, (names, loc) in sorted(acc.items()):
            k = "%s|compares-cipher-and-kdf" % bp
            if names >= {"cipher", "kdf"}:
                r.ok(k, loc, "compares both cipher() and kdf() of the folder summary", work=1)
            else:
                r.violation(k, loc, "this part of compare_cipher looks at %s only: a folder that differs in the %s alone is not selected for conversion, while change_cipher still reports success" % (
                    sorted(names), "/".join(sorted({"cipher", "kdf"} - names))), work=1)
    for fn in ws.find_fns(r"::change_cipher$"):
        if fn.crate in idioms.TEST_CRATES:
            continue
        b = cfg.code_body(ws, fn)
        calls = list(idioms.real_calls(b))
        conv = [i for i, t in calls if cname(t) == "convert_cipher"]
        if not conv:
            continue   # delegating implementations
        k = fn.root + "|skip-only-if-empty"
        gate = [(i, t) for i, t in calls if (t.get("callee") or "").endswith("CipherComparison::is_empty")]
        oks = [e.block for e in cfg.exits(b) if e.kind == "ok"]
        cut_edges = set()
        for gi, gt in gate:
            bs = cfg.bool_switch(b, gt.get("t")) if gt.get("t") is not None else None
            if bs:
                cut_edges.add((bs.block, bs.true_t))
        bad = [x for x in oks if x in cfg.reach(b, [0], cut_blocks=conv, cut_edges=cut_edges)]
        if bad:
            r.violation(k, cfg.loc(b, bad[0]), "change_cipher can return Ok without convert_cipher on a path that does not pass `conversion.is_empty() == true`",
                        work=len(b.blocks), witness=cfg.path_lines(b, cfg.find_path(b, [0], bad, cut_blocks=conv, cut_edges=cut_edges)))
        else:
            r.ok(k, cfg.loc(b, conv[0]), "every Ok exit either runs convert_cipher or passes the is_empty()==true edge", work=len(b.blocks))


def run(ctx):
    ctx.explanation = (
        "Sibling-agreement, value-flow and ordering rules: (R1) the reducer fields written by reduce are all read by "
        "build and by compact; (R2) in ChangePassword::build every decrypt takes the current key, every encrypt the "
        "new key, every pack stored in the new vault comes out of encrypt, and the salt is cleared before re-keying; "
        "(R3) compaction builds its diff from reduce().compact(), a checkpoint from a temporary log fed the same "
        "events, then replace_all_events, refresh_vault and the account event; (R4) change_password performs "
        "update_vault, refresh_vault, unlock, save_folder_password and the account event with the new key on every "
        "successful path; (R5) change_cipher skips convert_cipher only on the is_empty()==true edge, and CipherComparison::is_empty answers true only after inspecting every work list. Decides which state and which key flow where; equality of decrypted contents is not decided.")
    ctx.trust("rustc MIR field projections identify reducer fields")
    r1_reducer_siblings(ctx)
    r2_rekey_flows(ctx)
    r3_compaction_sequence(ctx)
    r4_password_change_complete(ctx)
    r5_cipher_change_runs(ctx)
