"""C18 — Backup archives restore the same account and cannot escape their target."""
import re
from .. import cfg, idioms
from ..flow import FlowGraph
from ..idioms import cname

FILENAME = re.compile(r"async_zip::entry::ZipEntry::filename$")
PATH_SINKS = {"join", "create", "create_dir_all", "write", "push", "open", "rename", "copy", "remove_file", "write_exclusive", "set_file_name"}
BY_NAME = re.compile(r"sos_archive::reader::Reader::<.*>::by_name$|sos_archive::reader::Reader::<R>::by_name$")
BY_NAME_ALLOWED = {
    "sos_archive::reader::Reader::<R>::find_manifest": "reads the manifest itself",
    "sos_filesystem::archive::import::archive_folder": "verifies the checksum",
    "sos_filesystem::archive::import::archive_buffer": "verifies the checksum",
    "sos_database::archive::import::start": "verifies the database checksum",
    "sos_database::archive::import::BackupImport::import_account": "content-addressed blobs; path built from typed ids (C16/C17 cover their integrity)",
    "sos_backend::archive::list_backup_archive_accounts": "read-only listing of accounts in an archive",
}


def r1_entry_names_are_data(ctx):
    ws = ctx.ws
    r = ctx.rule("C18-R1", "archive entry names reach path operations only through sanitize_file_path",
                 floor=3, kind="K4 taint with sanitizer")
    n = 0
    for f in ws.fns.values():
        if f.crate in idioms.TEST_CRATES:
            continue
        srcs = [(b, i, t) for b, i, t in f.calls() if cfg.call_matches(t, FILENAME) and i in cfg.live_blocks(b)]
        if not srcs:
            continue
        fg = FlowGraph(ws, f)
        san_nodes = set()
        for b_, i_, t_ in f.calls():
            if cname(t_) == "sanitize_file_path" and t_.get("dest"):
                san_nodes.add(fg.key(b_, t_["dest"]))
        for (sb, si, st) in srcs:
            n += 1
            bad = []
            nsinks = 0
            for b, i, t in f.calls():
                if idioms.is_noise(t) or idioms.is_logging(t):
                    continue
                nm = cname(t)
                if nm not in PATH_SINKS:
                    continue
                c = (t.get("callee") or "")
                if not re.search(r"(path::Path|PathBuf|fs::|vfs|File)", c + " ".join(t.get("targs") or [])):
                    continue
                for a in t["args"]:
                    sl = fg.back_from_operand(b, a)
                    if any(cb is sb and ci == si for cb, ci, _ct in sl.calls):
                        nsinks += 1
                        # the sanitiser must sit on EVERY value-flow path from the entry name to
                        # the sink: cut the results of sanitize_file_path out of the graph and
                        # the entry name must no longer reach the path operation
                        sl2 = fg.back_from_operand(b, a, stop=lambda n_: n_ in san_nodes)
                        if any(cb is sb and ci == si for cb, ci, _ct in sl2.calls):
                            bad.append((b, i, nm))
            k = "%s|filename-to-path" % f.root
            if bad:
                b, i, nm = bad[0]
                r.violation(k, cfg.loc(b, i), "a zip entry name flows into `%s` without passing sanitize_file_path: `../` or absolute entry names escape the import directory" % nm, work=len(fg.dep))
            else:
                # must be sanitised or only compared
                uses_san = any(cname(t) == "sanitize_file_path" for _b, _i, t in f.calls())
                r.ok(k, cfg.loc(sb, si), "entry name %s (%d path sink(s) reached)" % ("sanitised before use" if uses_san else "not used as a path", nsinks), work=len(fg.dep))
    if n == 0:
        r.anchor_missing("calls of ZipEntry::filename")
    sf = ws.fn("sos_archive::sanitize_file_path")
    if sf:
        consts = []
        for b in sf.bodies:
            for blk in b.blocks:
                t = blk.get("term")
                if t and t["k"] == "call":
                    for a in t["args"]:
                        c = cfg.op_const(a)
                        if c and "fn" in c:
                            consts.append(c["fn"])
        k = sf.root + "|maps-components"
        if any(c.endswith("sanitize_filename::sanitize") or c.startswith("sanitize_filename::sanitize") for c in consts):
            r.ok(k, cfg.loc(sf.main), "every component goes through sanitize_filename::sanitize", work=1)
        else:
            r.violation(k, cfg.loc(sf.main), "sanitize_file_path no longer maps each component through sanitize_filename::sanitize", work=1)
    else:
        r.anchor_missing("sos_archive::sanitize_file_path")


def _digest_gate(ws, f, body, fg):
    """bool switch comparing a Sha256 digest with a checksum; returns (bs, mismatch_target, match_target)."""
    for i in cfg.live_blocks(body):
        bs = cfg.bool_switch(body, i)
        if not bs or not bs.def_is_term or cname(bs.defn) not in ("eq", "ne"):
            continue
        sl = fg.back([(body.path, bs.local)])
        if any(re.search(r"(digest|finalize)$", cname(t)) or "Sha256" in (t.get("callee_full") or "") for _b, _i, t in sl.calls):
            neq = cname(bs.defn) == "ne"
            return bs, (bs.true_t if neq else bs.false_t), (bs.false_t if neq else bs.true_t)
    return None


def r2_checksum_gate(ctx):
    ws = ctx.ws
    r = ctx.rule("C18-R2", "every archived buffer is returned only when its SHA-256 equals the manifest checksum",
                 floor=6, kind="K1 who-may-call + K2 edge dominance")
    n = 0
    for (f, b, i, t) in idioms.callers_of(ws, BY_NAME, idioms.TEST_CRATES):
        n += 1
        k = "%s|by_name" % f.root
        if f.root in BY_NAME_ALLOWED:
            r.ok(k, cfg.loc(b, i), "tabled reader of archive entries: " + BY_NAME_ALLOWED[f.root], work=1)
        else:
            r.violation(k, cfg.loc(b, i), "archive entries are read by a function that is not a tabled, checksum-verifying reader", work=1)
    if n < 4:
        r.anchor_missing("callers of ZipReader::by_name (found %d)" % n)
    for name in ("archive_folder", "archive_buffer"):
        f = ws.fn("sos_filesystem::archive::import::" + name)
        if not f:
            r.anchor_missing("filesystem archive import " + name)
            continue
        body = cfg.code_body(ws, f)
        fg = FlowGraph(ws, f)
        g = _digest_gate(ws, f, body, fg)
        oks = [e.block for e in cfg.exits(body) if e.kind == "ok"]
        k = f.root + "|ok-needs-checksum-match"
        if not g:
            # the comparison may live in a verifying helper called with `?`
            done = False
            for hi, ht in idioms.real_calls(body):
                h = ws.fns.get(ht.get("resolved") or ht.get("callee") or "")
                if h is None or h.crate != f.crate or h.root == f.root:
                    continue
                hb = cfg.code_body(ws, h)
                hg = _digest_gate(ws, h, hb, FlowGraph(ws, h))
                argsl = [fg.back_from_operand(body, a) for a in ht["args"]]
                takes_sum = any(sl_.has_var(body, "checksum") for sl_ in argsl)
                takes_data = any(any(cname(ct) == "by_name" for _b, _i, ct in sl_.calls) for sl_ in argsl)
                if not (takes_sum and takes_data):
                    continue
                done = True
                if not hg:
                    r.violation(k, cfg.loc(hb), "%s delegates the check to %s, which does not compare the digest and the checksum for equality (`==`/`!=` on the whole values): a checksum that is only a prefix of the digest, or empty, is accepted" % (name, idioms.last_seg(h.root)), work=len(hb.blocks))
                    break
                hbs, hmism, hmatch = hg
                hoks = [e.block for e in cfg.exits(hb) if e.kind == "ok"]
                hbad = [o for o in hoks if o in cfg.reach(hb, [hmism], cut_blocks=[hbs.block]) or o in cfg.reach(hb, [0], cut_edges={(hbs.block, hmatch)})]
                rb = idioms.result_branches(body, hi)
                fbad = [o for o in oks if rb is None or o in cfg.reach(body, [0], cut_blocks=rb[0])]
                if hbad:
                    r.violation(k, cfg.loc(hb, hbad[0]), "%s (called by %s) can return Ok although the digest differs from the checksum" % (idioms.last_seg(h.root), name), work=len(hb.blocks))
                elif fbad:
                    r.violation(k, cfg.loc(body, fbad[0]), "%s can return the buffer without the success of %s" % (name, idioms.last_seg(h.root)), work=len(body.blocks))
                else:
                    r.ok(k, cfg.loc(body, hi), "Ok only after %s succeeded, which returns Ok only on its digest == checksum edge" % idioms.last_seg(h.root), work=len(body.blocks) + len(hb.blocks))
                break
            if not done:
                r.violation(k, cfg.loc(body), "%s no longer compares the entry's digest with the manifest checksum" % name, work=len(body.blocks))
            continue
        bs, mism, match = g
        sl = fg.back([(body.path, bs.local)])
        if not sl.has_var(body, "checksum"):
            r.violation(k + "|param", cfg.loc(body, bs.block), "the digest is not compared with the `checksum` parameter", work=len(sl.nodes))
        bad = [o for o in oks if o in cfg.reach(body, [mism], cut_blocks=[bs.block]) or o in cfg.reach(body, [0], cut_edges={(bs.block, match)})]
        if bad:
            r.violation(k, cfg.loc(body, bad[0]), "%s can return the buffer although its digest differs from the manifest checksum" % name, work=len(body.blocks))
        else:
            r.ok(k, cfg.loc(body, bs.block), "Ok only on the digest == checksum edge", work=len(body.blocks))
    # finish() consumes every manifest field
    fin = ws.fn("sos_filesystem::archive::import::finish")
    man = [a for a in ws.adts if a.endswith("::ManifestVersion1")]
    if fin and man:
        fields = [x["name"] for x in ws.adts[man[0]]["variants"][0]["fields"]]
        reads, _w = idioms.fields_touched(ws, fin, man[0])
        meta = {"account_id", "version", "date"}
        for fl in fields:
            if fl in meta:
                continue
            k = "%s|verifies:%s" % (fin.root, fl)
            if fl in reads:
                r.ok(k, cfg.loc(fin.main), "manifest.%s is read and routed through a verifying reader" % fl, work=1)
            else:
                r.violation(k, cfg.loc(fin.main), "manifest field `%s` is never read by finish(): that entry is restored (or dropped) unverified" % fl, work=1)
        inner = {cname(t) for _b, _i, t in fin.calls()}
        if not {"archive_folder", "archive_buffer"} <= inner:
            r.violation(fin.root + "|uses-verifying-readers", cfg.loc(fin.main), "finish() does not use archive_folder/archive_buffer", work=1)
    else:
        r.anchor_missing("filesystem archive import finish / ManifestVersion1")
    # v3 sqlite
    st = ws.fn("sos_database::archive::import::start")
    if st:
        body = cfg.code_body(ws, st)
        fg = FlowGraph(ws, st)
        g = None
        for i in cfg.live_blocks(body):
            bs = cfg.bool_switch(body, i)
            if bs and bs.def_is_term and cname(bs.defn) in ("eq", "ne"):
                sl = fg.back([(body.path, bs.local)])
                if any(cname(t) == "finalize" for _b, _i, t in sl.calls) and sl.reads_field("checksum"):
                    g = bs
        opens = [i for i, t in idioms.real_calls(body) if cname(t) == "open" and "Connection" in (t.get("callee") or "")]
        k = st.root + "|open-needs-checksum-match"
        if not g:
            r.violation(k, cfg.loc(body), "the extracted database is not compared with manifest.checksum", work=len(body.blocks))
        else:
            neq = cname(g.defn) == "ne"
            mism = g.true_t if neq else g.false_t
            match = g.false_t if neq else g.true_t
            bad = [o for o in opens if o in cfg.reach(body, [mism], cut_blocks=[g.block]) or o in cfg.reach(body, [0], cut_edges={(g.block, match)})]
            if bad or not opens:
                r.violation(k, cfg.loc(body, (bad or [g.block])[0]), "the archive's database is opened although its checksum differs from the manifest", work=len(body.blocks))
            else:
                r.ok(k, cfg.loc(body, g.block), "Connection::open only on the checksum-equal edge", work=len(body.blocks))
        # the checksum is taken over the buffer written to the temp file
        wr = [(i, t) for i, t in idioms.real_calls(body) if cname(t) == "write_all"]
        bn = [(i, t) for i, t in idioms.real_calls(body) if cname(t) == "by_name"]
        k = st.root + "|hashes-written-buffer"
        if wr and bn:
            sl = fg.back_from_operand(body, wr[0][1]["args"][-1])
            if any(cname(t) == "by_name" for _b, _i, t in sl.calls):
                r.ok(k, cfg.loc(body, wr[0][0]), "the hashing writer receives the archive's database entry", work=len(sl.nodes))
            else:
                r.violation(k, cfg.loc(body, wr[0][0]), "the bytes hashed are not the database entry read from the archive", work=len(sl.nodes))
        hw = [f for f in ws.fns.values() if re.search(r"HashingWriter<W, H> as std::io::Write>::write$", f.root)]
        if hw:
            names = [cname(t) for _b, _i, t in hw[0].calls()]
            if "update" in names and "write" in names:
                r.ok(hw[0].root + "|hash-and-write", cfg.loc(hw[0].main), "HashingWriter hashes what it writes", work=1)
            else:
                r.violation(hw[0].root + "|hash-and-write", cfg.loc(hw[0].main), "HashingWriter::write no longer both hashes and writes the buffer", work=1)
    else:
        r.anchor_missing("database archive import start")


def r3_nothing_written_before_verification(ctx):
    ws = ctx.ws
    r = ctx.rule("C18-R3", "account data is written only after extract_archive/finish verified the archive",
                 floor=2, kind="K2 dominance")
    f = ws.fn("sos_filesystem::archive::import::import_archive_reader")
    if not f:
        r.anchor_missing("filesystem import_archive_reader")
    else:
        body = cfg.code_body(ws, f)
        ex = [i for i, t in idioms.real_calls(body) if cname(t) == "extract_archive"]
        writes = [(i, t) for i, t in idioms.real_calls(body) if cname(t) in ("write", "apply", "create_dir_all", "restore_system", "restore_user_folders", "set_vault_name")]
        if not ex:
            r.violation(f.root + "|verifies", cfg.loc(body), "import does not call extract_archive", work=1)
        else:
            cut = []
            for e in ex:
                rb = idioms.result_branches(body, e)
                cut.extend(rb[0] if rb else [e])
            pre = cfg.reach(body, [0], cut_blocks=cut)
            for (i, t) in writes:
                k = "%s|%s-after-verify" % (f.root, cname(t))
                if i in pre:
                    r.violation(k, cfg.loc(body, i), "`%s` can run before the archive was verified" % cname(t), work=len(pre))
                else:
                    r.ok(k, cfg.loc(body, i), "`%s` only after extract_archive succeeded" % cname(t), work=len(pre))
    ea = ws.fn("sos_filesystem::archive::import::extract_archive")
    if ea:
        body = cfg.code_body(ws, ea)
        fin = [i for i, t in idioms.real_calls(body) if cname(t) == "finish"]
        oks = [e.block for e in cfg.exits(body) if e.kind == "ok"]
        cut = []
        for e in fin:
            rb = idioms.result_branches(body, e)
            cut.extend(rb[0] if rb else [e])
        k = ea.root + "|ok-needs-finish"
        if fin and not any(o in cfg.reach(body, [0], cut_blocks=cut) for o in oks):
            r.ok(k, cfg.loc(body, fin[0]), "extract_archive returns targets only after finish() verified them", work=len(body.blocks))
        else:
            r.violation(k, cfg.loc(body), "extract_archive can return restore targets without finish()", work=len(body.blocks))
    ia = ws.find_fns(r"^sos_database::archive::import::BackupImport::write_import_data_source$")
    st = [f2 for (f2, _b, _i, _t) in idioms.callers_of(ws, re.compile(r"BackupImport::write_import_data_source$"), idioms.TEST_CRATES)]
    k = "sos_database::archive::import|target-writes-only-from-import"
    if ia and st and all(x.root.endswith("BackupImport::import_account") for x in st):
        r.ok(k, cfg.loc(ia[0].main), "the target database is written only from BackupImport::import_account (which exists only after start() verified the checksum)", work=len(st))
    elif ia:
        r.violation(k, cfg.loc(ia[0].main), "write_import_data_source has callers other than import_account: %s" % [x.root for x in st], work=len(st))


def run(ctx):
    ctx.explanation = (
        "Taint and gate rules over sos-archive and both importers: (R1) every value derived from ZipEntry::filename "
        "that reaches a path operation passed sanitize_file_path, which maps each component through "
        "sanitize_filename::sanitize; (R2) archive entries are read only by tabled readers; archive_folder/archive_buffer "
        "return Ok only on the digest==checksum edge with the checksum parameter, finish() reads every manifest field, "
        "and the v3 importer opens the extracted database only on the checksum-equal edge of a hash taken over the "
        "written buffer; (R3) account data is written only after verification. Equality of the restored account is not "
        "decided. Blob extraction before manifest verification (v1/v2) is a tabled exception: blobs are content-addressed.")
    ctx.trust("sanitize-filename removes path separators and parent references", "sha2", "async_zip entry enumeration")
    r1_entry_names_are_data(ctx)
    r2_checksum_gate(ctx)
    r3_nothing_written_before_verification(ctx)
