"""C02 — A folder always equals the replay of its own event log."""
import re
from .. import cfg, idioms
from ..flow import FlowGraph
from ..idioms import cname, EVENTLOG

WRITE_EVENT = "sos_core::events::write::WriteEvent"
SECRET_ACCESS = "sos_vault::access_point::SecretAccess"
FOLDER_OPS = {
    "create_secret": ("create_secret", None), "update_secret": ("update_secret", None),
    "delete_secret": ("delete_secret", None), "rename_folder": ("set_vault_name", "SetVaultName"),
    "update_folder_flags": ("set_vault_flags", "SetVaultFlags"), "set_meta": ("set_vault_meta", None),
}
REPLAY = {"SetVaultName": "set_vault_name", "SetVaultFlags": "set_vault_flags", "SetVaultMeta": "set_vault_meta",
          "CreateSecret": "create_secret", "UpdateSecret": "update_secret", "DeleteSecret": "delete_secret"}


def r1_mutation_then_event(ctx):
    ws = ctx.ws
    r = ctx.rule("C02-R1", "every Folder mutation appends the matching event to the folder's log on every successful path",
                 floor=6, kind="K3 pairing + K4 flow")
    n = 0
    for name, (mut, variant) in FOLDER_OPS.items():
        f = ws.fn("sos_backend::folder::Folder::" + name)
        if not f:
            r.violation("sos_backend::folder::Folder::%s|exists" % name, "-", "Folder::%s not found" % name, work=0)
            continue
        n += 1
        body = cfg.code_body(ws, f)
        live = cfg.live_blocks(body)
        muts = [i for i, t in idioms.real_calls(body, live) if cname(t) == mut]
        apps = [(i, t) for i, t in idioms.real_calls(body, live) if cname(t) == "apply" and (t.get("trait") == EVENTLOG or "EventLog" in (t.get("callee") or ""))]
        key = f.root
        if not muts:
            r.violation(key + "|mutates", cfg.loc(body), "Folder::%s no longer calls %s on the access point" % (name, mut), work=len(live))
            continue
        if not apps:
            r.violation(key + "|appends", cfg.loc(body), "Folder::%s changes the vault but never appends an event: log and vault diverge" % name, work=len(live))
            continue
        ablocks = [i for i, _t in apps]
        # order: vault first, event second
        if any(a in cfg.reach(body, [0], cut_blocks=muts) for a in ablocks):
            r.violation(key + "|order", cfg.loc(body, ablocks[0]), "the event can be appended without the vault mutation having run", work=len(live))
        else:
            r.ok(key + "|order", cfg.loc(body, ablocks[0]), "%s dominates events.apply" % mut, work=len(live))
        # every Ok exit after a successful mutation passes apply, except the `None` (row absent) arm
        start = []
        for m in muts:
            s, _at = idioms.success_start(body, m)
            start.extend(s)
        none_cut = []
        for es in cfg.enum_switches(body):
            if es.enum == "core::option::Option" and "None" in es.targets:
                none_cut.append(es.targets["None"])
            elif es.enum == "core::option::Option" and "Some" in es.targets and es.otherwise_live:
                none_cut.append(es.otherwise)
        oks = [e.block for e in cfg.exits(body) if e.kind == "ok"]
        bad = [o for o in oks if o in cfg.reach(body, start, cut_blocks=ablocks + none_cut)]
        if bad:
            p = cfg.find_path(body, start, bad, cut_blocks=ablocks + none_cut)
            r.violation(key + "|ok-needs-apply", cfg.loc(body, bad[0]), "Folder::%s can succeed after changing the vault without appending the event" % name, work=len(live), witness=cfg.path_lines(body, p))
        else:
            r.ok(key + "|ok-needs-apply", cfg.loc(body), "all successful paths with an event pass events.apply", work=len(live))
        # the event applied is the one the mutation returned (or the matching variant)
        fg = FlowGraph(ws, f)
        ai, at = apps[0]
        sl = fg.back_from_operand(body, at["args"][-1])
        from_mut = any(cname(t) == mut for _b, _i, t in sl.calls)
        from_variant = any(s.get("adt") == WRITE_EVENT and s.get("variant") == variant for _b, s in sl.aggs) if variant else False
        k = key + "|event-source"
        if from_mut or from_variant:
            r.ok(k, cfg.loc(body, ai), "applied event is %s" % ("the mutation's result" if from_mut else "WriteEvent::" + variant), work=len(sl.nodes))
        else:
            other = sorted({s.get("variant") for _b, s in sl.aggs if s.get("adt") == WRITE_EVENT})
            r.violation(k, cfg.loc(body, ai), "the event appended by Folder::%s is neither the mutation's result nor WriteEvent::%s (found %s)" % (name, variant, other), work=len(sl.nodes))


def r2_merge_replay_table(ctx):
    ws = ctx.ws
    r = ctx.rule("C02-R2", "merge replays each event kind onto the access point with the matching mutator, only after the patch was accepted",
                 floor=6, kind="K6 arm table")
    fns = [f for f in ws.fns.values() if re.search(r"<sos_backend::folder::Folder as sos_client_storage::folder_sync::FolderMerge>::merge$", f.root)]
    if not fns:
        r.anchor_missing("impl FolderMerge for Folder::merge")
        return
    f = fns[0]
    body = cfg.code_body(ws, f)
    best = None
    for es in cfg.enum_switches(body):
        if es.enum == WRITE_EVENT and len(es.targets) >= 6:
            best = es
    if best is None:
        r.violation(f.root + "|event-match", cfg.loc(body), "merge no longer matches on every WriteEvent kind", work=1)
        return
    arms = idioms.arm_calls(body, best)
    for v, mut in REPLAY.items():
        got = [cname(t) for _i, t in arms.get(v, []) if t.get("trait") == SECRET_ACCESS or "SecretAccess" in (t.get("callee") or "")]
        k = "%s|%s" % (f.root, v)
        if mut in got:
            wrong = [g for g in got if g in REPLAY.values() and g != mut]
            if wrong:
                r.violation(k, cfg.loc(body, best.block), "the %s arm also calls %s" % (v, wrong), work=len(arms.get(v, [])))
            else:
                r.ok(k, cfg.loc(body, best.block), "%s -> access_point.%s" % (v, mut), work=len(arms.get(v, [])))
        else:
            r.violation(k, cfg.loc(body, best.block), "the %s arm of merge does not call access_point.%s (calls %s): the served folder no longer equals the replay of its log" % (v, mut, got), work=len(arms.get(v, [])))
    if best.otherwise_live:
        miss = [v["name"] for v in ws.adts[WRITE_EVENT]["variants"] if v["name"] not in best.targets]
        r.violation(f.root + "|wildcard", cfg.loc(body, best.block), "a wildcard arm swallows %s in the merge replay" % miss, work=1)


def r3_force_merge_sequence(ctx):
    ws = ctx.ws
    r = ctx.rule("C02-R3", "force merge: replace the log, rebuild the vault from that log, replace the mirror",
                 floor=3, kind="K2 ordering")
    fns = [f for f in ws.fns.values() if re.search(r"<sos_backend::folder::Folder as sos_client_storage::folder_sync::FolderMerge>::force_merge$", f.root)]
    if not fns:
        r.anchor_missing("impl FolderMerge for Folder::force_merge")
        return
    f = fns[0]
    idioms.check_sequence(r, ws, f, ["replace_all_events", "reduce", "build", "replace_vault"], "force-merge")
    body = cfg.code_body(ws, f)
    for i, t in idioms.real_calls(body):
        if cname(t) == "build":
            c = cfg.op_const(t["args"][-1])
            k = f.root + "|build-includes-secrets"
            if c is not None and c.get("b") is True:
                r.ok(k, cfg.loc(body, i), "build(true): the rebuilt vault holds the secrets", work=1)
            else:
                r.violation(k, cfg.loc(body, i), "force_merge rebuilds the vault without its secrets", work=1)
        if cname(t) == "replace_vault":
            c = cfg.op_const(t["args"][-1])
            k = f.root + "|replace-mirrors"
            if c is not None and c.get("b") is True:
                r.ok(k, cfg.loc(body, i), "replace_vault(.., true): the storage mirror is replaced too", work=1)
            else:
                r.violation(k, cfg.loc(body, i), "force_merge replaces only the in-memory vault, not the stored one", work=1)


def r4_reducer_covers_kinds(ctx):
    ws = ctx.ws
    r = ctx.rule("C02-R4", "FolderReducer::reduce handles every event kind except Noop",
                 floor=1, kind="K6 handler table")
    f = ws.fn("sos_reducers::folder::FolderReducer::reduce")
    if not f:
        r.anchor_missing("FolderReducer::reduce")
        return
    variants = [v["name"] for v in ws.adts[WRITE_EVENT]["variants"]]
    best = None
    for b in f.bodies:
        for es in cfg.enum_switches(b):
            if es.enum == WRITE_EVENT and len(es.targets) >= 5:
                best = (b, es)
    if not best:
        r.violation(f.root + "|match", cfg.loc(f.main), "reduce no longer matches on the event kind", work=1)
        return
    b, es = best
    swallowed = [v for v in variants if v not in es.targets] if es.otherwise_live else []
    k = f.root + "|wildcard"
    if set(swallowed) <= {"Noop"}:
        r.ok(k, cfg.loc(b, es.block), "arms for %s; wildcard takes %s" % (sorted(es.targets), swallowed), work=len(variants))
    else:
        r.violation(k, cfg.loc(b, es.block), "event kinds %s fall into the wildcard arm of the reducer: they are lost on replay" % sorted(set(swallowed) - {"Noop"}), work=len(variants))
    missing = [v for v in variants if v not in es.targets and not es.otherwise_live]
    if missing:
        r.violation(f.root + "|missing", cfg.loc(b, es.block), "no arm for %s" % missing, work=1)


def r6_until_commit_after_each_event(ctx):
    ws = ctx.ws
    r = ctx.rule("C02-R6", "replay up to a commit: the cut-off is tested after every consumed event, including the first",
                 floor=2, kind="K2 must-pass-through")
    f = ws.fn("sos_reducers::folder::FolderReducer::reduce")
    if not f:
        r.anchor_missing("FolderReducer::reduce")
        return
    body = cfg.code_body(ws, f)
    live = cfg.live_blocks(body)
    nexts = [i for i, t in idioms.real_calls(body, live) if cname(t) in ("next", "try_next")]
    # blocks that read the until_commit field
    checks = set()
    for j in sorted(live):
        for st in body.blocks[j]["s"]:
            for p in [st.get("p")] + [cfg.op_place(o) for o in st.get("ops", [])]:
                if p and "until_commit" in cfg.place_fields(p):
                    checks.add(j)
    if not checks:
        r.violation(f.root + "|uses-until", cfg.loc(body), "reduce never consults until_commit: replay to an earlier commit returns the whole log", work=len(live))
        return
    if len(nexts) < 2:
        r.note("only %d stream.next() site(s)" % len(nexts))
    for idx, nb in enumerate(nexts):
        # from a consumed event (Some arm) every path to the next consumption passes a check
        start, _ = idioms.success_start(body, nb)
        others = [x for x in nexts]
        bad = cfg.find_path(body, cfg.succs(body)[nb], others, cut_blocks=checks)
        k = "%s|next#%d" % (f.root, idx)
        # a path that goes straight to the loop exit (None) without consuming is fine: only paths reaching another `next`
        if bad and len(bad) > 1:
            r.violation(k, cfg.loc(body, nb), "after consuming an event the reducer can fetch the next one without testing the until_commit cut-off: replay up to that commit overshoots", work=len(live), witness=cfg.path_lines(body, bad))
        else:
            r.ok(k, cfg.loc(body, nb), "cut-off tested before the next event is fetched", work=len(live))


def r5_update_vault(ctx):
    ws = ctx.ws
    r = ctx.rule("C02-R5", "rewriting a folder keeps vault and log together",
                 floor=2, kind="K2 ordering")
    st = [f for f in ws.fns.values() if re.search(r"^sos_client_storage::traits::Client\w+Storage::update_vault$", f.root)]
    if st:
        idioms.check_sequence(r, ws, st[0], ["write_vault", "clear", "apply"], "update-vault")
    else:
        r.anchor_missing("client storage update_vault")


def run(ctx):
    ctx.explanation = (
        "Pairing, arm-table and ordering rules over every code path that changes a folder: (R1) each Folder mutator "
        "calls its access-point mutation first and then events.apply with that mutation's event on every successful "
        "path that produced one; (R2) the merge replay maps each WriteEvent kind to the matching access-point mutator "
        "with no wildcard; (R3) force merge replaces the log, reduces that same log with secrets and replaces the "
        "mirror; (R4) the reducer has an arm for every kind but Noop; (R5) update_vault writes the vault, clears and "
        "re-applies the events. Semantic equality after re-encryption and mid-replay failure are not decided.")
    ctx.trust("rustc MIR")
    r1_mutation_then_event(ctx)
    r2_merge_replay_table(ctx)
    r3_force_merge_sequence(ctx)
    r4_reducer_covers_kinds(ctx)
    r5_update_vault(ctx)
    r6_until_commit_after_each_event(ctx)
    # shared with C01: a whole-vault rewrite that leaves old rows behind serves
    # secrets the log (reset from the new vault) does not replay
    from . import c01
    c01.r3b_db_rewrite_replaces_rows(ctx)
    ctx.rules[-1].id = "C02-R7"
    for inst in ctx.rules[-1].instances:
        inst["rule"] = "C02-R7"
        inst["key"] = inst["key"].replace("C01-R3b|", "C02-R7|", 1)
    # shared with C07-R5: merged events are replayed into the vault only when the log
    # accepted the patch — otherwise the served folder is ahead of its own log
    from . import c07
    c07.r5_replay_after_accept(ctx)
    ctx.rules[-1].id = "C02-R8"
    for inst in ctx.rules[-1].instances:
        inst["rule"] = "C02-R8"
        inst["key"] = inst["key"].replace("C07-R5|", "C02-R8|", 1)
