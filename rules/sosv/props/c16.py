"""C16 — Integrity reports flag every corruption and nothing else."""
import re
from collections import deque
from .. import cfg, idioms
from ..flow import FlowGraph
from ..idioms import cname

HASH = re.compile(r"(sos_core::commit::tree::CommitTree::hash$|digest::.*::finalize|Digest>::finalize|sha2::)")
MISMATCH_VARIANTS = {"VaultHashMismatch", "HashMismatch", "CorruptedFile"}


def r1_db_row_hash_covers_both_blobs(ctx):
    ws = ctx.ws
    r = ctx.rule("C16-R1", "the vault integrity stream hashes the same bytes the stored commit covers, on both backends",
                 floor=3, kind="K5 sibling agreement")
    fns = ws.find_fns(r"^sos_integrity::vault_integrity::vault_stream$")
    if not fns:
        r.anchor_missing("vault_integrity::vault_stream")
        return
    f = fns[0]
    # content accessors of SecretRow
    acc = set()
    for g in ws.fns.values():
        if g.meta.get("self_adt", "").endswith("entity::folder::SecretRow") and re.search(r"_bytes$", g.meta.get("name") or ""):
            acc.add(g.meta["name"])
    if len(acc) < 2:
        r.anchor_missing("SecretRow::{meta_bytes,secret_bytes} accessors")
        return
    called = {}
    for b, i, t in f.calls():
        n = cname(t)
        if n in acc and "SecretRow" in (t.get("callee") or ""):
            called.setdefault(n, []).append((b, i))
    for a in sorted(acc):
        k = "%s|db-hashes:%s" % (f.root, a)
        if a in called:
            b, i = called[a][0]
            r.ok(k, cfg.loc(b, i), "the sqlite branch feeds %s into the row hash" % a, work=1)
        else:
            r.violation(k, cfg.loc(f.main),
                        "the sqlite branch of vault_stream never reads SecretRow::%s (it reads %s): the recomputed hash cannot equal the stored commit over meta‖secret, and corruption of that column is unseen" % (
                            a, {n: len(v) for n, v in called.items()}),
                        work=1)
    # what the commit covers: Vault::commit_hash hashes two encodings
    ch = ws.find_fns(r"^sos_vault::vault::Vault::commit_hash$")
    if ch:
        names = [cname(t) for _b, _i, t in ch[0].calls() if not idioms.is_noise(t)]
        enc = len([n for n in names if n == "encode"])
        k = ch[0].root + "|covers-meta-and-secret"
        upd = len([n for n in names if n == "update"])
        if enc >= 2 and ("hash" in names or (upd >= 2 and "finalize" in names)):
            r.ok(k, cfg.loc(ch[0].main), "commit_hash = hash(encode(meta) ‖ encode(secret))", work=len(names))
        else:
            r.violation(k, cfg.loc(ch[0].main), "Vault::commit_hash no longer hashes both the meta and the secret encodings (encode calls: %d)" % enc, work=len(names))
    else:
        r.anchor_missing("Vault::commit_hash")
    # fs branch reads the row value range
    fs_reads = [(b, i) for b, i, t in f.calls() if cname(t) == "read_bytes"]
    vals = [(b, i) for b, i, t in f.calls() if cname(t) == "value"]
    k = f.root + "|fs-hashes-row-value"
    if fs_reads and vals:
        r.ok(k, cfg.loc(*fs_reads[0]), "the file branch reads the record's value range", work=1)
    else:
        r.violation(k, cfg.loc(f.main), "the file branch no longer reads the record value range", work=1)


def _gates(ws, f):
    """(body, bool switch, mismatch target, match target) for every hash comparison in f."""
    out = []
    fg = FlowGraph(ws, f)
    for b in f.bodies:
        for i in cfg.live_blocks(b):
            bs = cfg.bool_switch(b, i)
            if not bs or not bs.def_is_term:
                continue
            n = cname(bs.defn)
            if n not in ("eq", "ne"):
                continue
            sl = fg.back([(b.path, bs.local)])
            if not any(cfg.call_matches(ct, HASH) for _b, _i, ct in sl.calls):
                continue
            mism = bs.false_t if n == "eq" else bs.true_t
            match = bs.true_t if n == "eq" else bs.false_t
            out.append((b, bs, mism, match))
    return out


def r2_r3_hash_and_gate(ctx):
    ws = ctx.ws
    r2 = ctx.rule("C16-R2", "every integrity check recomputes SHA-256 (CommitTree::hash / sha2) over the stored bytes",
                  floor=3, kind="K1")
    r3 = ctx.rule("C16-R3", "a hash mismatch always becomes a failure, and a failure is produced only for a mismatch",
                  floor=3, kind="K2 edge dominance")
    targets = [("vault", r"^sos_integrity::vault_integrity::vault_integrity$"),
               ("event", r"^sos_integrity::event_integrity::event_integrity$"),
               ("file", r"^sos_integrity::file_integrity::compare_file$")]
    for label, rx in targets:
        fns = ws.find_fns(rx)
        if not fns:
            r2.anchor_missing(rx)
            continue
        f = fns[0]
        hs = [(b, i, t) for b, i, t in f.calls() if cfg.call_matches(t, HASH)]
        sha = any("Sha256" in (t.get("callee_full") or "") or "CommitTree::hash" in (t.get("callee") or "") for _b, _i, t in hs)
        if hs and sha:
            r2.ok(f.root + "|sha256", cfg.loc(hs[0][0], hs[0][1]), "%s integrity hashes with %s" % (label, cname(hs[0][2])), work=len(hs))
        else:
            r2.violation(f.root + "|sha256", cfg.loc(f.main), "%s integrity no longer recomputes a SHA-256 digest" % label, work=1)
        gates = _gates(ws, f)
        if not gates:
            r3.violation(f.root + "|gate", cfg.loc(f.main), "%s integrity never compares the recomputed hash with the stored one" % label, work=1)
            continue
        for (b, bs, mism, match) in gates:
            aggs = []
            for j in cfg.live_blocks(b):
                for s in b.blocks[j]["s"]:
                    if s.get("k") == "agg" and s.get("variant") in MISMATCH_VARIANTS:
                        aggs.append(j)
            k = "%s|mismatch-edge" % f.root
            if not aggs:
                r3.violation(k + "|no-failure", cfg.loc(b, bs.block), "no mismatch failure value is constructed in %s integrity" % label, work=len(b.blocks))
                continue
            from_mism = cfg.reach(b, [mism], cut_blocks=[bs.block])
            if not (set(aggs) & from_mism):
                r3.violation(k + "|reaches-failure", cfg.loc(b, bs.block),
                             "the mismatch edge of the hash comparison does not lead to a failure: corrupted content is reported intact", work=len(from_mism))
            else:
                r3.ok(k + "|reaches-failure", cfg.loc(b, bs.block), "hash mismatch leads to the failure value", work=len(from_mism))
            # must-pass-through: no exit / next loop iteration from the mismatch edge that avoids the failure
            cont = {e.block for e in cfg.exits(b) if e.kind != "err"} | {j for j, t in b.calls() if cname(t) in ("next", "poll_next", "try_next")}
            esc = cfg.reach(b, [mism], cut_blocks=set(aggs) | {bs.block}) & cont
            if esc:
                p = cfg.find_path(b, [mism], esc, cut_blocks=set(aggs) | {bs.block})
                r3.violation(k + "|mismatch-must-fail", cfg.loc(b, bs.block),
                             "after a hash mismatch the check can carry on without producing the failure (a second condition lets corrupted content pass)",
                             work=len(from_mism), witness=cfg.path_lines(b, p))
            else:
                r3.ok(k + "|mismatch-must-fail", cfg.loc(b, bs.block), "every path from the mismatch edge produces the failure", work=len(from_mism))
            others = cfg.reach(b, [0], cut_edges={(bs.block, mism)})
            if set(aggs) & others:
                r3.violation(k + "|failure-only-on-mismatch", cfg.loc(b, aggs[0]),
                             "the mismatch failure is also produced on a path where the hashes were equal or not compared: intact content is reported corrupt", work=len(others))
            else:
                r3.ok(k + "|failure-only-on-mismatch", cfg.loc(b, aggs[0]), "failure only via the mismatch edge", work=len(others))
            # from the match edge the failure is not reachable before the next comparison
            from_match = cfg.reach(b, [match], cut_blocks=[bs.block])
            if set(aggs) & from_match:
                r3.violation(k + "|match-is-clean", cfg.loc(b, bs.block), "the equal edge also reaches the failure value", work=len(from_match))
            else:
                r3.ok(k + "|match-is-clean", cfg.loc(b, bs.block), "equal hashes never produce the failure", work=len(from_match))


def r4_failures_emitted(ctx):
    ws = ctx.ws
    r = ctx.rule("C16-R4", "missing folders/files and stream errors are reported as failures (not dropped)",
                 floor=4, kind="K6 inventory")
    want = [(r"^sos_integrity::account_integrity::check_folder$", {"MissingFolder": 2, "CorruptedFolder": 2, "Error": 2}),
            (r"^sos_integrity::file_integrity::check_file$", {"MissingFile": 1, "Error": 1})]
    for rx, need in want:
        fns = ws.find_fns(rx)
        if not fns:
            r.anchor_missing(rx)
            continue
        f = fns[0]
        have = {}
        for b in f.bodies:
            for j in cfg.live_blocks(b):
                for s in b.blocks[j]["s"]:
                    if s.get("k") == "agg" and (s.get("adt") or "").endswith("IntegrityFailure"):
                        have[s["variant"]] = have.get(s["variant"], 0) + 1
        for v, n in need.items():
            k = "%s|emits:%s" % (f.root, v)
            if have.get(v, 0) >= n:
                r.ok(k, cfg.loc(f.main), "IntegrityFailure::%s constructed %d time(s)" % (v, have.get(v, 0)), work=1)
            else:
                r.violation(k, cfg.loc(f.main), "IntegrityFailure::%s is constructed %d time(s), %d on the pinned tree: a missing/corrupt/error case is no longer reported" % (v, have.get(v, 0), n), work=1)
    # every folder / file is visited: the spawning loop has no early exit but cancellation
    for rx, callee in ((r"^sos_integrity::account_integrity::account_integrity$", "check_folder"),
                       (r"^sos_integrity::file_integrity::file_integrity$", "check_file")):
        fns = ws.find_fns(rx)
        if not fns:
            r.anchor_missing(rx)
            continue
        f = fns[0]
        n = len([1 for _b, _i, t in f.calls() if cname(t) == callee])
        k = "%s|visits-each" % f.root
        if n >= 1:
            r.ok(k, cfg.loc(f.main), "%s is invoked from the visiting loop" % callee, work=1)
        else:
            r.violation(k, cfg.loc(f.main), "%s is never invoked: nothing is checked" % callee, work=1)


def _bool_paths_reach(body, starts, cut_blocks):
    """Blocks reachable from `starts` without entering `cut_blocks`, following a
    bool switch only along the edge its operand is known to take.  Known values
    come from constant assignments, copies and negations of known locals, and
    from the edges already taken (finite domain: local -> True/False)."""
    cut_blocks = set(cut_blocks)
    seen = set()
    out = set()
    dq = deque()
    for s0 in starts:
        dq.append((s0, frozenset()))
    steps = 0
    while dq:
        bi, envf = dq.popleft()
        if bi in cut_blocks or (bi, envf) in seen:
            continue
        seen.add((bi, envf))
        out.add(bi)
        steps += 1
        if steps > 20000:
            # give up on precision, not on soundness: fall back to plain reachability
            return out | cfg.reach(body, [bi], cut_blocks=cut_blocks)
        env = dict(envf)
        alias = {}      # temp -> (source local, negated) set in this block
        blk = body.blocks[bi]
        for st in blk["s"]:
            d = st.get("d")
            if d is None:
                continue
            dl = cfg.place_local(d) if isinstance(d, str) else None
            if dl is None or "." in str(d):
                continue
            val = None
            k = st.get("k")
            if k == "use":
                c = cfg.op_const(st["ops"][0])
                if c is not None and "b" in c:
                    val = bool(c["b"])
                else:
                    sl = cfg.op_local(st["ops"][0])
                    if sl is not None:
                        alias[dl] = (sl, False)
                        if sl in env:
                            val = env[sl]
            elif k == "un" and st.get("op") == "Not":
                sl = cfg.op_local(st["ops"][0])
                if sl is not None:
                    alias[dl] = (sl, True)
                    if sl in env:
                        val = not env[sl]
            if val is None:
                env.pop(dl, None)
            else:
                env[dl] = val
        t = blk.get("term")
        if not t:
            continue
        if t["k"] == "call" and t.get("dest") is not None:
            dl = cfg.place_local(t["dest"]) if isinstance(t["dest"], str) else None
            if dl is not None:
                env.pop(dl, None)
        if t["k"] == "switch" and t.get("dty") == "bool":
            l = cfg.op_local(t["d"])
            false_t, true_t = None, t["otherwise"]
            for v, bb in t["vals"]:
                if v == 0:
                    false_t = bb
                else:
                    true_t = bb
            if false_t is None:
                false_t = t["otherwise"]
            for val, tgt in ((True, true_t), (False, false_t)):
                if l is not None and l in env and env[l] != val:
                    continue
                e2 = dict(env)
                if l is not None:
                    e2[l] = val
                    if l in alias:
                        src, neg = alias[l]
                        e2[src] = (not val) if neg else val
                dq.append((tgt, frozenset(e2.items())))
            continue
        for nx in cfg.succs(body)[bi]:
            dq.append((nx, frozenset(env.items())))
    return out


def r8_existence_gate(ctx):
    """On the file-system backend a folder is checked further only when BOTH of
    its files exist: from the point where the folder's file names are taken,
    no Ok exit is reachable that avoids an existence test without passing the
    MissingFolder report."""
    ws = ctx.ws
    r = ctx.rule("C16-R8", "a folder with a missing vault or event log file is reported, whichever of the two is missing",
                 floor=2, kind="K2 must-pass-through")
    fns = ws.find_fns(r"^sos_integrity::account_integrity::check_folder$")
    if not fns:
        r.anchor_missing("sos_integrity::account_integrity::check_folder")
        return
    f = fns[0]
    found = False
    for b in f.bodies:
        live = cfg.live_blocks(b)
        calls = list(idioms.real_calls(b, live))
        names = [i for i, t in calls if cname(t) in ("vault_path", "event_log_path")]
        tests = [i for i, t in calls if cname(t) in ("try_exists", "exists")]
        if not names or not tests:
            continue
        found = True
        fail = set()
        for j in live:
            for st in b.blocks[j]["s"]:
                if st.get("k") == "agg" and (st.get("adt") or "").endswith("IntegrityFailure") and st.get("variant") == "MissingFolder":
                    fail.add(j)
        start = []
        for i in names:
            sst, _ = idioms.success_start(b, i)
            start.extend(sst)
        oks = {e.block for e in cfg.exits(b) if e.kind != "err"}
        if len(tests) < len(names):
            r.violation(f.root + "|tests-each-file", cfg.loc(b, names[0]),
                        "%d file names are taken but only %d existence tests are made" % (len(names), len(tests)), work=len(live))
        for n, e in enumerate(tests, 1):
            k = "%s|existence-test#%d-not-bypassed" % (f.root, n)
            rs = _bool_paths_reach(b, start, set([e]) | fail)
            bad = [x for x in oks if x in rs]
            if bad:
                r.violation(k, cfg.loc(b, e),
                            "the folder check can go on (or end without a report) on a path that never makes this existence test and never reports MissingFolder: a folder whose file is missing is not reported",
                            work=len(rs), witness=cfg.path_lines(b, cfg.find_path(b, start, bad, cut_blocks=set([e]) | fail)))
            else:
                r.ok(k, cfg.loc(b, e), "every continuing path makes the test or reports MissingFolder", work=len(rs))
    if not found:
        r.anchor_missing("vault_path/event_log_path and try_exists calls in check_folder")


LOSSY = re.compile(r"mpsc::(bounded::)?Sender::<.*>::(try_send|try_reserve|try_reserve_owned|send_timeout)$")
SENDS = re.compile(r"mpsc::(bounded::)?Sender::<.*>::(send|blocking_send)$")
SHARED = re.compile(r"(sync::mutex::Mutex::<.*>::(lock|try_lock)|sync::rwlock::RwLock::<.*>::write|atomic::Atomic\w+::(fetch_add|load))$")


def r5_nothing_skipped(ctx):
    """Every row / folder that is read reaches the comparison: no lossy channel
    operation, and the scan is shut down only when the shared completion count
    says that every folder task has finished."""
    ws = ctx.ws
    r = ctx.rule("C16-R5", "no item is dropped on the way to the comparison: channel sends wait for capacity, and the shutdown signal is gated by shared completion state",
                 floor=3, kind="K1 who-may-call + K4 flow into a dominating comparison")
    nsend = 0
    for root, fn in sorted(ws.fns.items()):
        if fn.crate != "sos_integrity":
            continue
        idx = 0
        for b, i, t in fn.calls():
            full = t.get("callee") or ""
            if LOSSY.search(full):
                idx += 1
                r.violation("%s|lossy-send#%d" % (root, idx), cfg.loc(b, i),
                            "`%s` on the bounded channel of the integrity stream drops the item when the channel is full: rows past the channel capacity are never hashed" % cname(t), work=1)
            elif SENDS.search(full):
                nsend += 1
    if nsend >= 3:
        r.ok("sos_integrity|sends-wait", "-", "%d channel sends in sos_integrity, all awaiting capacity (send / blocking_send)" % nsend, work=nsend)
    else:
        r.anchor_missing("channel sends in sos_integrity (found %d)" % nsend)
    for rx in (r"^sos_integrity::account_integrity::account_integrity$", r"^sos_integrity::file_integrity::file_integrity$"):
        fns = ws.find_fns(rx)
        if not fns:
            r.anchor_missing(rx)
            continue
        f = fns[0]
        fg = FlowGraph(ws, f)
        gates = 0
        for b in f.bodies:
            live = cfg.live_blocks(b)
            sends = [i for i, t in idioms.real_calls(b, live) if re.search(r"watch::Sender::<.*>::send$", t.get("callee") or "")]
            if not sends:
                continue
            for j in sorted(live):
                bs = cfg.bool_switch(b, j)
                if not bs or bs.defn is None or bs.def_is_term or bs.defn.get("k") != "bin" or bs.defn.get("op") != "Eq":
                    continue
                # the send is behind the true edge only
                if not all(x in cfg.reach(b, [bs.true_t]) and x not in cfg.reach(b, [0], cut_edges={(bs.block, bs.true_t)}) for x in sends):
                    continue
                gates += 1
                shared = False
                for o in bs.defn["ops"]:
                    sl = fg.back_from_operand(b, o)
                    if any(SHARED.search(ct.get("callee") or "") for _b, _i, ct in sl.calls):
                        shared = True
                k = "%s|shutdown-gate#%d" % (f.root, gates)
                if shared:
                    r.ok(k, cfg.loc(b, j), "the shutdown signal is sent when a counter read under a lock / atomically equals the number of items", work=len(live))
                else:
                    r.violation(k, cfg.loc(b, j),
                                "the shutdown signal is gated by a comparison in which neither side comes from shared state (mutex / atomic): completion is inferred from dispatch order, so a task that finishes early cancels readers that are still scanning",
                                work=len(live))
        if gates == 0:
            r.ok(f.root + "|shutdown-gate", cfg.loc(f.main), "no count-gated shutdown signal in this function", work=1)


def r7_paging_can_continue(ctx):
    """If an integrity reader pages through rows with `LIMIT ?k`, the test that
    decides whether there is another page must be satisfiable: a result of a
    query limited to N rows never has more than N, so `rows.len() > N` (same N)
    is always false and the scan silently stops after the first page.
    Expected count on the pinned tree: zero paged readers."""
    ws = ctx.ws
    r = ctx.rule("C16-R7", "a paged integrity reader can reach its next page (the continuation test is satisfiable under the LIMIT it binds)",
                 floor=1, kind="K8 SQL literal + constant relation between the LIMIT bound and the continuation comparison")
    n = 0
    for root, fn in sorted(ws.fns.items()):
        if fn.crate != "sos_integrity":
            continue
        lim_ph = None
        for b, i, t in fn.calls():
            if cname(t) == "limit" and t.get("args"):
                for a in t["args"][1:]:
                    e = idioms.expr_tree(b, a)
                    while isinstance(e, tuple) and e[0] in ("cast",):
                        e = e[1]
                    if isinstance(e, tuple) and e[0] == "const" and isinstance(e[1], str):
                        m = re.match(r"\?(\d+)$", e[1].strip())
                        if m:
                            lim_ph = int(m.group(1))
        if lim_ph is None:
            continue
        n += 1
        # the constant bound to that placeholder: k-th element of a tuple passed to query*/execute
        bound = None
        for b in fn.bodies:
            defs = cfg.defs_of(b)
            for i, t in idioms.real_calls(b):
                if cname(t) not in ("query", "query_map", "query_row", "execute", "query_and_then", "query_map_and_then"):
                    continue
                for a in t["args"]:
                    p_ = cfg.op_place(a)
                    if p_ is None:
                        continue
                    for (_bi, st, is_term) in defs.get(cfg.place_local(p_), []):
                        if not is_term and st.get("k") == "agg" and st.get("ak") == "tuple" and len(st["ops"]) >= lim_ph:
                            e = idioms.expr_tree(b, st["ops"][lim_ph - 1], defs)
                            while isinstance(e, tuple) and e[0] == "cast":
                                e = e[1]
                            if isinstance(e, tuple) and e[0] == "const" and isinstance(e[1], int):
                                bound = e[1]
        k = root + "|paging"
        if bound is None:
            r.ok(k, cfg.loc(fn.main), "LIMIT ?%d is bound to a run-time value (not decided)" % lim_ph, work=1)
            continue
        dead = None
        for b in fn.bodies:
            defs = cfg.defs_of(b)
            for j in cfg.live_blocks(b):
                bs = cfg.bool_switch(b, j)
                if not bs or bs.defn is None or bs.def_is_term or bs.defn.get("k") != "bin" or bs.defn.get("op") not in ("Gt", "Lt"):
                    continue
                ea, eb = (idioms.expr_tree(b, o, defs) for o in bs.defn["ops"])
                lhs, rhs = (ea, eb) if bs.defn["op"] == "Gt" else (eb, ea)     # lhs > rhs
                if isinstance(lhs, tuple) and lhs[0] == "call" and lhs[1] == "len" and isinstance(rhs, tuple) and rhs[0] == "const" and isinstance(rhs[1], int) and rhs[1] >= bound:
                    dead = (b, j, rhs[1])
        if dead:
            r.violation(k, cfg.loc(dead[0], dead[1]), "the reader fetches pages with LIMIT %d and continues only while `len() > %d`: a page never has more than %d rows, so only the first page is ever checked and corruption beyond it is never reported" % (bound, dead[2], bound), work=1)
        else:
            r.ok(k, cfg.loc(fn.main), "paged with LIMIT %d; no unsatisfiable continuation test" % bound, work=1)
    if n == 0:
        r.ok("sos_integrity|no-paged-readers", "-", "no integrity reader uses LIMIT: every row of a folder is streamed by one query", work=1)


def run(ctx):
    ctx.explanation = (
        "Sibling-agreement and edge-dominance rules over sos-integrity: (R1) the sqlite branch of the vault stream reads "
        "every content accessor of SecretRow that Vault::commit_hash covers (meta and secret), the file branch the row "
        "value range; (R2) each check recomputes SHA-256; (R3) the mismatch edge of each hash comparison leads to the "
        "failure value, the failure is constructed only behind that edge and never behind the equal edge; (R4) missing "
        "and error cases construct failures; (R5) no lossy channel operation on the way to the comparison and the shutdown signal is gated by shared completion state; (R7) a paged read can continue past its first page; (R8) the folder check goes on only when both of the folder's files were tested for existence, decided path-sensitively over bool locals. Decides that the right bytes are compared and no mismatch is swallowed; "
        "per-byte completeness is a runtime layout fact and not decided.")
    ctx.trust("sha2 / rs_merkle Sha256")
    r1_db_row_hash_covers_both_blobs(ctx)
    r2_r3_hash_and_gate(ctx)
    r4_failures_emitted(ctx)
    r5_nothing_skipped(ctx)
    r7_paging_can_continue(ctx)
    r8_existence_gate(ctx)
    # shared with C01-R7: "and nothing else" — a row whose content is rewritten by an upsert
    # that forgets to rewrite its stored commit_hash is reported as corrupted although nobody touched it
    from . import c01
    c01.r7_upsert_complete(ctx)
    ctx.rules[-1].id = "C16-R6"
    for inst in ctx.rules[-1].instances:
        inst["rule"] = "C16-R6"
        inst["key"] = inst["key"].replace("C01-R7|", "C16-R6|", 1)
