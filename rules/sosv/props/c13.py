"""C13 — A crash at any point leaves an account that opens and is consistent."""
import re
from .. import cfg, idioms
from ..idioms import cname, EVENTLOG, last_seg


def r1_append_is_one_write(ctx):
    ws = ctx.ws
    r = ctx.rule("C13-R1", "an append to a log file is a single write of a pre-built buffer under the write lock, followed by flush",
                 floor=3, kind="K2 shape")
    fns = [f for f in ws.impl_methods(EVENTLOG, "apply_records") if "FileSystemEventLog" in f.root]
    if not fns:
        r.anchor_missing("FileSystemEventLog::apply_records")
        return
    f = fns[0]
    body = cfg.code_body(ws, f)
    live = cfg.live_blocks(body)
    wr = [i for i, t in idioms.real_calls(body, live) if cname(t) in ("write_all", "write_all_buf", "write_buf") or (cname(t) == "write" and "AsyncWrite" in (t.get("trait") or ""))]
    fl = [i for i, t in idioms.real_calls(body, live) if cname(t) == "flush"]
    lk = [i for i, t in idioms.real_calls(body, live) if cname(t) == "lock_write"]
    enc = [i for i, t in idioms.real_calls(body, live) if cname(t) == "encode"]
    k = f.root + "|single-write"
    if len(wr) == 1:
        # the write is not inside the per-record loop: no path from the write back to an encode
        if any(e in cfg.reach_after(body, wr[0]) for e in enc):
            r.violation(k, cfg.loc(body, wr[0]), "records are written one at a time inside the encoding loop: a crash between them leaves a partial append", work=len(live))
        else:
            r.ok(k, cfg.loc(body, wr[0]), "one write_all after all records were encoded", work=len(live))
    else:
        r.violation(k, cfg.loc(body), "apply_records performs %d writes (expected exactly one)" % len(wr), work=len(live))
    k = f.root + "|locked"
    if lk and wr and all(w not in cfg.reach(body, [0], cut_blocks=lk) for w in wr):
        r.ok(k, cfg.loc(body, lk[0]), "the advisory write lock is taken before writing", work=len(live))
    else:
        r.violation(k, cfg.loc(body), "the append is not performed under lock_write", work=len(live))
    k = f.root + "|flushed"
    oks = [e.block for e in cfg.exits(body) if e.kind == "ok"]
    if fl and wr:
        start, _ = idioms.success_start(body, wr[0])
        rb = idioms.result_branches(body, wr[0])
        okstart = rb[0] if rb else start
        bad = [o for o in oks if o in cfg.reach(body, okstart, cut_blocks=fl)]
        if bad:
            r.violation(k, cfg.loc(body, bad[0]), "apply_records can report success after writing without flush", work=len(live))
        else:
            r.ok(k, cfg.loc(body, fl[0]), "flush follows the write on every successful path", work=len(live))
    else:
        r.violation(k, cfg.loc(body), "apply_records never flushes the file", work=len(live))


def r3_db_transactions(ctx):
    ws = ctx.ws
    r = ctx.rule("C13-R3", "multi-statement database mutations of event logs and vault rows run in a committed transaction",
                 floor=4, kind="K2 pairing")
    MUT = {"insert_events", "delete_one", "delete_all_events", "insert_secret_by_row_id", "delete_all_secrets", "insert_folder_secrets",
           "update_folder", "insert_folder", "delete_folder", "update_secret", "delete_secret", "insert_account_events", "insert_folder_events",
           "insert_device_events", "insert_file_events"}
    n = 0
    for b in ws.bodies.values():
        if b.kind != "Closure" or not b.crate.startswith("sos_database") and b.crate not in ("sos_backend", "sos_server_storage", "sos_client_storage"):
            continue
        if b.crate in idioms.TEST_CRATES:
            continue
        live = cfg.live_blocks(b)
        muts = [(i, t) for i, t in idioms.real_calls(b, live) if cname(t) in MUT and "entity" in (t.get("callee") or "")]
        if len(muts) < 2:
            # loops count as multiple
            loops = [i for i, _t in muts if i in cfg.reach_after(b, i)]
            if not loops:
                continue
        n += 1
        tx = [i for i, t in idioms.real_calls(b, live) if cname(t) == "transaction"]
        cm = [i for i, t in idioms.real_calls(b, live) if cname(t) == "commit" and "Transaction" in (t.get("callee") or "")]
        key = "%s|transaction" % b.path
        if not tx:
            r.violation(key, cfg.loc(b), "%d mutating statements (%s) run outside a transaction: a crash between them leaves a partial update" % (len(muts), sorted({cname(t) for _i, t in muts})), work=len(live))
            continue
        oks = [e.block for e in cfg.exits(b) if e.kind == "ok"]
        bad = [o for o in oks if o in cfg.reach(b, [0], cut_blocks=cm)]
        pre = [i for i, _t in muts if i in cfg.reach(b, [0], cut_blocks=tx)]
        if pre:
            r.violation(key, cfg.loc(b, pre[0]), "a mutating statement runs before the transaction is opened", work=len(live))
        elif bad or not cm:
            r.violation(key, cfg.loc(b), "the closure can return Ok without committing the transaction", work=len(live))
        else:
            r.ok(key, cfg.loc(b, tx[0]), "%d statements inside transaction()..commit()" % len(muts), work=len(live))
    if n < 3:
        r.anchor_missing("database closures with several mutating statements (found %d)" % n)


DB_MUT = {"insert_events", "delete_one", "delete_all_events", "insert_secret_by_row_id", "delete_all_secrets", "insert_folder_secrets",
          "update_folder", "insert_folder", "delete_folder", "update_secret", "delete_secret", "insert_account_events", "insert_folder_events",
          "insert_device_events", "insert_file_events"}
DBLOG = "sos_database::event_log::DatabaseEventLog"


def _tx_sites(ws, fn, memo, depth=0):
    """Blocks of fn's code body that start a mutating database transaction:
    a conn/conn_mut call whose closure executes mutating statements, or a call
    to a method of the same log type that (transitively) has such a site."""
    if fn.root in memo:
        return memo[fn.root]
    memo[fn.root] = []
    body = cfg.code_body(ws, fn)
    live = cfg.live_blocks(body)
    mut_closures = set()
    for b in fn.bodies:
        if b.kind == "Closure" and any(cname(t) in DB_MUT and "entity" in (t.get("callee") or "") for _i, t in idioms.real_calls(b)):
            mut_closures.add(b.path)
    sites = []
    clos_locals = {}
    for i in live:
        for st in body.blocks[i]["s"]:
            if st.get("k") == "agg" and st.get("ak") in ("closure", "coroutine") and st.get("def") in mut_closures:
                clos_locals[cfg.place_local(st["d"])] = st["def"]
    for i, t in idioms.real_calls(body, live):
        if any(cfg.op_local(a) in clos_locals for a in t["args"] if isinstance(a, str)):
            sites.append((i, "transaction in %s" % cname(t)))
            continue
        callee = t.get("resolved") or t.get("callee") or ""
        if DBLOG in callee and depth < 4:
            g = ws.fns.get(callee) or next((f for f in ws.find_fns(re.escape(last_seg(callee)) + "$") if DBLOG in f.root and f.root != fn.root and last_seg(f.root) == last_seg(callee)), None)
            if g is not None and g.root != fn.root and _tx_sites(ws, g, memo, depth + 1):
                sites.append((i, "call to %s" % last_seg(g.root)))
    memo[fn.root] = sites
    return sites


def r3b_one_transaction_per_operation(ctx):
    ws = ctx.ws
    r = ctx.rule("C13-R3b", "every event-log operation of the database backend changes the database in one transaction",
                 floor=4, kind="K2 path rule over transaction sites (interprocedural summaries)")
    fns = []
    for imp in ws.impls_of(EVENTLOG):
        for it in imp["items"]:
            if DBLOG in it["path"] and it["path"] in ws.fns:
                fns.append(ws.fns[it["path"]])
    # inherent helpers of the database log (insert_records ..) are operations too:
    # a helper that runs two transactions makes every caller non-atomic
    for root, f_ in ws.fns.items():
        if root.startswith(DBLOG + "::<") and "{closure" not in root and f_ not in fns:
            fns.append(f_)
    memo = {}
    n = 0
    for f in sorted(fns, key=lambda x: x.root):
        body = cfg.code_body(ws, f)
        sites = _tx_sites(ws, f, memo)
        if not sites:
            continue
        n += 1
        k = f.root + "|one-transaction"
        bad = None
        for (i, what) in sites:
            after = cfg.reach_after(body, i)
            for (j, what2) in sites:
                if j in after:
                    bad = (i, what, j, what2)
                    break
            if bad:
                break
        if bad:
            r.violation(k, cfg.loc(body, bad[2]),
                        "%s performs two separate database transactions on one path (%s, then %s): a crash between them leaves the log neither in its old nor in its new state" % (
                            last_seg(f.root), bad[1], bad[3]), work=len(body.blocks),
                        witness=cfg.path_lines(body, cfg.find_path(body, [bad[0]], [bad[2]])))
        else:
            r.ok(k, cfg.loc(body, sites[0][0]), "at most one mutating transaction on any path (%s)" % ", ".join(w for _i, w in sites), work=len(body.blocks))
    if n < 4:
        r.anchor_missing("database EventLog methods with a transaction site (found %d)" % n)


E1_SCOPE = re.compile(r"^(sos_filesystem|sos_database|sos_backend|sos_server_storage|sos_client_storage|sos_vault|sos_reducers|sos_remote_sync|sos_sync|sos_archive|sos_external_files|sos_database_upgrader|sos_account|sos_login)$")
E1_NOTIFY = re.compile(r"(mpsc|broadcast|oneshot|watch)::.*Sender.*::(send|try_send)$|SinkExt::send$")


def _local_used(body, l):
    for blk in body.blocks:
        for st in blk["s"]:
            if st.get("k") == "dead":
                continue
            if st.get("p") and cfg.place_local(st["p"]) == l:
                return True
            for o in st.get("ops", []) or []:
                p_ = cfg.op_place(o)
                if p_ and cfg.place_local(p_) == l:
                    return True
        t = blk.get("term") or {}
        for o in t.get("args", []) or []:
            p_ = cfg.op_place(o)
            if p_ and cfg.place_local(p_) == l:
                return True
        if t.get("k") == "switch":
            p_ = cfg.op_place(t["d"])
            if p_ and cfg.place_local(p_) == l:
                return True
    return False


def r6_no_discarded_results(ctx):
    """Error discipline of the storage, sync and account layers: a `Result`
    is never thrown away (`let _ = ..`, a bare `..;`, `.ok();`). A failed write,
    flush, truncate or rollback that is ignored leaves memory and storage out of
    step without anybody being told. The only tabled idiom is a best-effort
    notification to a listener channel."""
    ws = ctx.ws
    r = ctx.rule("C13-R6", "no Result of the storage, sync and account layers is discarded (except best-effort listener notifications)",
                 floor=1, kind="K-error discipline: unused Result-typed temporaries over all bodies")
    n = 0
    nnotify = 0
    counts = {}
    for root, fn in sorted(ws.fns.items()):
        if not E1_SCOPE.match(fn.crate or "") or fn.meta.get("exp"):
            continue
        for b in fn.bodies:
            live = cfg.live_blocks(b)
            defs = cfg.defs_of(b)
            cands = []
            for l, ty in enumerate(b.locals):
                if l == 0 or l <= b.argc or not ty.startswith("core::result::Result<") or b.vars.get(str(l)):
                    continue
                ds = defs.get(l, [])
                if ds and any(bi in live for bi, _s, _t in ds):
                    cands.append((l, ds))
            for i, t in idioms.real_calls(b, live):
                if re.search(r"result::Result::<.*>::ok$", t.get("callee") or "") and t.get("dest") and "." not in t["dest"] \
                        and cfg.place_local(t["dest"]) != 0 and not b.vars.get(t["dest"]):
                    cands.append((cfg.place_local(t["dest"]), [(i, t, True)]))
            for l, ds in cands:
                n += 1
                if _local_used(b, l):
                    continue
                org = idioms.origin_calls(b, str(l))
                callees = sorted({(b.blocks[x]["term"].get("callee") or "") for x in org})
                if callees and all(E1_NOTIFY.search(c) for c in callees):
                    nnotify += 1
                    continue
                counts[root] = counts.get(root, 0) + 1
                bi = ds[0][0]
                r.violation("%s|discarded#%d" % (root, counts[root]), cfg.loc(b, bi),
                            "the Result of %s is discarded: a failure here is silently ignored and the operation carries on as if it had succeeded" % (
                                [idioms.last_seg(c) for c in callees] or "an expression"), work=1)
    if n >= 3000:
        r.ok("workspace|results-consumed", "-", "%d Result-typed temporaries examined; %d discarded ones are best-effort listener notifications; none other" % (n, nnotify), work=n)
    else:
        r.anchor_missing("Result-typed temporaries in the storage/sync/account crates (found %d)" % n)


def r7_open_repairs_empty_log(ctx):
    """Folder::from_path (the file-system open path) rebuilds the event log from
    the vault file whenever the LOADED log has no root — that is what brings an
    account back after a crash between clearing a log and appending its
    replacement. The branch must be decided by the state of the loaded tree, not
    by something weaker such as the existence of the file."""
    ws = ctx.ws
    r = ctx.rule("C13-R7", "the open path re-initialises a folder log whenever the loaded commit tree is empty",
                 floor=1, kind="K4 flow into the controlling condition")
    fns = ws.find_fns(r"^sos_backend::folder::Folder::from_path$")
    if not fns:
        r.anchor_missing("Folder::from_path")
        return
    f = fns[0]
    b = cfg.code_body(ws, f)
    live = cfg.live_blocks(b)
    from ..flow import FlowGraph
    fg = FlowGraph(ws, f)
    splits = [i for i, t in idioms.real_calls(b, live) if cname(t) == "split" and "FolderReducer" in (t.get("callee") or "")]
    k = f.root + "|repair-when-tree-empty"
    if not splits:
        r.violation(k, cfg.loc(b), "Folder::from_path no longer rebuilds an empty log from the vault (FolderReducer::split)", work=len(live))
        return
    ok = False
    gates = 0
    for j in sorted(live):
        bs = cfg.bool_switch(b, j)
        if not bs:
            continue
        for tgt, other in ((bs.true_t, bs.false_t), (bs.false_t, bs.true_t)):
            if all(x in cfg.reach(b, [tgt], cut_blocks=[bs.block]) and x not in cfg.reach(b, [other], cut_blocks=[bs.block]) for x in splits):
                gates += 1
                sl = fg.back([(b.path, bs.local)])
                if any(cname(ct) in ("root", "is_empty", "len", "last_commit", "head") and "CommitTree" in (ct.get("callee") or "") for _b, _i, ct in sl.calls):
                    ok = True
    if ok or gates == 0:
        r.ok(k, cfg.loc(b, splits[0]), "the rebuild is decided by the loaded commit tree (root / is_empty)" if ok else "the rebuild is unconditional", work=len(live))
    else:
        r.violation(k, cfg.loc(b, splits[0]), "whether the log is rebuilt from the vault no longer depends on the loaded commit tree: a log file that exists but was emptied by an interrupted operation is opened as it is, and the folder serves secrets its log does not replay", work=len(live))


EFFECTS = re.compile(r"^(write|write_all|write_exclusive|create|create_dir_all|rename|remove_file|set_len|conn_mut|conn_mut_and_then|insert_\w+|upsert_\w+|replace_\w+|create_folder_entry|apply|apply_records|patch_unchecked|truncate)$")


def r8_refuse_before_effect(ctx):
    """A request that is refused for what it contains (the folder id in the
    buffer is not the id it was sent under) is refused before anything is
    written: otherwise the refusal leaves storage changed, and after a restart
    the account has a vault file that does not belong to the folder."""
    ws = ctx.ws
    r = ctx.rule("C13-R8", "an identifier-mismatch refusal happens before any storage effect",
                 floor=2, kind="K2 ordering (error construction unreachable from effect sites)")
    n = 0
    for root, fn in sorted(ws.fns.items()):
        if fn.crate in idioms.TEST_CRATES:
            continue
        for b in fn.bodies:
            live = cfg.live_blocks(b)
            errs = [i for i in live for s_ in b.blocks[i]["s"] if s_.get("k") == "agg" and s_.get("variant") == "VaultIdentifierMismatch"]
            if not errs:
                continue
            n += 1
            effects = [i for i, t in idioms.real_calls(b, live) if EFFECTS.match(cname(t)) and not re.search(r"(fmt::|io::Write::write_fmt|Vec<)", t.get("callee") or "")]
            k = root + "|mismatch-before-effects"
            late = [e for e in errs if any(e in cfg.reach_after(b, w) for w in effects)]
            if late:
                w0 = next(w for w in effects if late[0] in cfg.reach_after(b, w))
                r.violation(k, cfg.loc(b, late[0]), "the VaultIdentifierMismatch refusal is raised after `%s` has already run: a refused import leaves the storage changed" % cname(b.blocks[w0]["term"]), work=len(live))
            else:
                r.ok(k, cfg.loc(b, errs[0]), "the identifier check precedes every storage effect (%d effect sites)" % len(effects), work=len(live))
    if n < 2:
        r.anchor_missing("functions refusing with VaultIdentifierMismatch (found %d)" % n)


def r4_snapshot_before_destruction(ctx):
    ws = ctx.ws
    r = ctx.rule("C13-R4", "replace_all_events on files takes a snapshot before erasing and removes it only when verified",
                 floor=2, kind="K2 dominance")
    fns = [f for f in ws.impl_methods(EVENTLOG, "replace_all_events") if "FileSystemEventLog" in f.root]
    if not fns:
        r.anchor_missing("FileSystemEventLog::replace_all_events")
        return
    f = fns[0]
    body = cfg.code_body(ws, f)
    live = cfg.live_blocks(body)
    snap = [i for i, t in idioms.real_calls(body, live) if cname(t) == "try_create_snapshot"]
    clr = [i for i, t in idioms.real_calls(body, live) if cname(t) in ("clear", "truncate")]
    rmf = [i for i, t in idioms.real_calls(body, live) if cname(t) == "remove_file"]
    k = f.root + "|snapshot-before-clear"
    if snap and clr and not any(c in cfg.reach(body, [0], cut_blocks=snap) for c in clr):
        r.ok(k, cfg.loc(body, snap[0]), "try_create_snapshot dominates clear", work=len(live))
    else:
        r.violation(k, cfg.loc(body), "the log is erased without a snapshot having been taken first", work=len(live))
    # the snapshot is restored (not just dropped) when verification fails
    rb = [i for i, t in idioms.real_calls(body, live) if cname(t) == "try_rollback_snapshot"]
    k = f.root + "|rollback-exists"
    if rb:
        r.ok(k, cfg.loc(body, rb[0]), "try_rollback_snapshot is called on the failure path (C07-R2 decides that every failure path passes it)", work=1)
    else:
        r.violation(k, cfg.loc(body), "the snapshot is never restored", work=1)


def r5_vault_before_event(ctx):
    ws = ctx.ws
    r = ctx.rule("C13-R5", "in Folder the vault (and its mirror) is mutated before the event is appended",
                 floor=6, kind="K2 ordering")
    pairs = {"create_secret": "create_secret", "update_secret": "update_secret", "delete_secret": "delete_secret",
             "rename_folder": "set_vault_name", "update_folder_flags": "set_vault_flags", "set_meta": "set_vault_meta"}
    for name, mut in pairs.items():
        f = ws.fn("sos_backend::folder::Folder::" + name)
        if not f:
            r.violation("sos_backend::folder::Folder::%s|exists" % name, "-", "Folder::%s not found" % name, work=0)
            continue
        body = cfg.code_body(ws, f)
        live = cfg.live_blocks(body)
        muts = [i for i, t in idioms.real_calls(body, live) if cname(t) == mut]
        apps = [i for i, t in idioms.real_calls(body, live) if cname(t) == "apply"]
        k = f.root + "|vault-then-event"
        if muts and apps and not any(m in cfg.reach_after(body, a) for a in apps for m in muts) and not any(a in cfg.reach(body, [0], cut_blocks=muts) for a in apps):
            r.ok(k, cfg.loc(body, muts[0]), "%s precedes events.apply (documented recovery order)" % mut, work=len(live))
        else:
            r.violation(k, cfg.loc(body), "the event is appended before (or independently of) the vault mutation in Folder::%s" % name, work=len(live))


def run(ctx):
    ctx.explanation = (
        "Shape conditions the crash claim rests on, decided on every path: (R1) a file append is exactly one write_all "
        "of a buffer built before, under lock_write, flushed on every successful path; (R3) every database closure "
        "that executes several mutating statements opens a transaction first and cannot return Ok without commit; "
        "(R4) the file replace-all takes a snapshot before clearing and never deletes it on a path that reports a "
        "verification failure; (R5) Folder mutates the vault before appending the event. Torn writes and recovery "
        "after an abandoned operation are NOT decided: crash points are not enumerable statically (see DESIGN.md).")
    ctx.trust("the file system performs one write(2) per write_all of a single buffer as far as the crate can tell",
              "sqlite transactions are atomic")
    r1_append_is_one_write(ctx)
    r3_db_transactions(ctx)
    r3b_one_transaction_per_operation(ctx)
    r4_snapshot_before_destruction(ctx)
    r5_vault_before_event(ctx)
    r6_no_discarded_results(ctx)
    r7_open_repairs_empty_log(ctx)
    r8_refuse_before_effect(ctx)
