"""Reviewed-safe panic sites for C15: one entry per (function, kind, detail)
with the number of sites covered and the local reason the site is infeasible
or not driven by untrusted input. An extra site in a listed function is still
reported."""

# (function root path, kind, detail, count, reason)
_TABLE = [
]


def entries():
    return list(_TABLE)


def lookup(root, kind, detail, idx):
    for (r, k, d, n, reason) in _TABLE:
        if r == root and k == kind and d == detail and idx < n:
            return reason
    return None
