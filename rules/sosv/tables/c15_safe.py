"""Reviewed-safe panic sites for C15: one entry per (function, kind, detail)
with the number of sites covered and the local reason the site is infeasible
or not driven by untrusted input. An extra site in a listed function is still
reported (the count is exact), and a listed function that disappears simply
stops matching."""

FS_LOG = "<sos_filesystem::event_log::FileSystemEventLog<T, E> as sos_core::events::event_log::EventLog<T>>::"
STREAM = "sos_filesystem::formats::stream::FormatStream::<T, R>::"

# (function root path, kind, detail, count, reason)
_TABLE = [
    ("<sos_core::account::AccountId as core::str::traits::FromStr>::from_str", "may-panic", "index:index", 1,
     "`&s[2..]` runs only after `s.starts_with(\"0x\")`: length >= 2 and offset 2 is a char boundary (ASCII prefix)"),
    ("sos_protocol::bindings::relay::RelayPacket::decode_split", "may-panic", "index:index", 3,
     "`packet[0..2]` inside `if packet.len() > 2`; `packet[2..boundary]` and `packet[boundary..]` inside `if packet.len() > key_length + 2` with boundary = key_length + 2"),
    ("sos_protocol::bindings::relay::RelayPacket::decode_split", "unwrap", "unwrap", 1,
     "`<[u8; 2]>::try_from(&packet[0..2])`: the slice has exactly size_of::<u16>() bytes"),
    ("sos_protocol::bindings::relay::RelayPacket::decode_split", "assert", "Overflow:Add:usize", 2,
     "`key_length as usize + 2` with key_length read from a u16"),
    ("sos_protocol::bindings::relay::RelayPacket::decode_split", "assert", "Overflow:Sub:usize", 1,
     "`packet.len() - boundary` inside `if packet.len() > boundary`"),
    ("sos_vault::vault::Header::read_content_offset_stream", "assert", "Overflow:Add:u64", 2,
     "identity length (4) + 4 + a u32 widened to u64"),
    (FS_LOG + "diff_records", "may-panic", "vec-position:insert", 1,
     "`events.insert(0, _)`: index 0 is valid for every Vec"),
    (FS_LOG + "rewind", "assert", "Overflow:Sub:usize", 1,
     "`leaves.len() - records.len()` is inside `if leaves.len() > records.len()`"),
    (FS_LOG + "rewind", "assert", "Overflow:Sub:u64", 1,
     "`length -= byte_length` is inside `if byte_length < length`"),
    ("sos_archive::reader::Reader::<R>::by_name", "unwrap", "unwrap", 1,
     "`entries().get(index).unwrap()` with index ranging over `0..entries().len()` of the same collection"),
    ("sos_core::file_identity::FileIdentity::read_slice", "assert", "BoundsCheck", 1,
     "`buffer[index]` with index < identity.len() inside `if buffer.len() >= identity.len()`"),
    ("sos_core::file_identity::format_identity_bytes", "unwrap", "expect", 1,
     "the argument is the expected magic (a compile-time ASCII constant), never bytes read from the file"),
    ("sos_filesystem::event_log::FileSystemEventLog::<T, E>::header_len", "assert", "DivisionByZero", 1,
     "`u16::BITS / 8`: constant non-zero divisor"),
    ("sos_filesystem::event_log::FileSystemEventLog::<T, E>::header_len", "assert", "Overflow:Add:usize", 1,
     "identity length (4) + 2: constants"),
    ("sos_filesystem::event_log::read_event_buffer", "assert", "Overflow:Sub:u64", 1,
     "`value.end - value.start`: the range is built by FormatStream::read_row as `begin..begin+len` or `start+4..end-4` with end >= start+8"),
    ("sos_filesystem::formats::file_identity::read_file_identity_bytes", "assert", "BoundsCheck", 1,
     "`buffer[index]` on a [u8; 4] with index < identity.len(); every identity constant is 4 bytes and the file length was checked"),
    ("sos_filesystem::formats::records::EventLogRecord::byte_length", "assert", "Overflow:Sub:u64", 1,
     "inside `if self.offset.end >= self.offset.start`"),
    (STREAM + "read_row", "assert", "Overflow:Add:u64", 2,
     "u64 stream position + u32 length / + 4: cannot exceed u64 for a file-sized position"),
    (STREAM + "read_row", "assert", "Overflow:Sub:u64", 1,
     "`offset.end - 4` where offset.end = row_pos + row_len + 8 >= 8"),
    (STREAM + "read_row_next", "assert", "Overflow:Add:u64", 2,
     "`row_pos + (row_len as u64 + 8)`: u64 file position + u32 length + 8"),
    (STREAM + "read_row_next", "unwrap", "unwrap", 1,
     "`self.forward.unwrap()`: next_forward assigns Some(offset) immediately before calling"),
    (STREAM + "read_row_next_back", "assert", "Overflow:Add:u64", 4,
     "u32 length + 8, row_start + that, row_start + 4: row_start was bounds-checked by checked_sub/filter just above"),
    (STREAM + "read_row_next_back", "assert", "Overflow:Sub:u64", 2,
     "`row_pos - 4`: next_back only calls with backward > header_offset >= 4 (identity bytes)"),
    (STREAM + "read_row_next_back", "unwrap", "unwrap", 1,
     "`self.backward.unwrap()`: next_back assigns Some(len) immediately before calling"),
    ("sos_vault::encoding::secret::<impl binary_stream::futures::Decodable for sos_vault::secret::Secret>::decode", "may-panic", "vec-position:remove", 1,
     "`cards.remove(0)` after vcard4::parse, which returns Err (not an empty list) when no card is present (vcard4 0.7.2, checked); input is AEAD-decrypted plaintext"),
    # server request handlers (C15-R5)
    ("sos_server::handlers::account::handlers::sync_status", "unwrap", "unwrap", 1,
     "`accounts.get(id).unwrap()` after `account_exists(id)` while the Backend read guard taken at the top is still alive; removing an account needs Backend::delete_account(&mut self), i.e. the write guard"),
    ("sos_server::handlers::websocket::WebSocketAccount::broadcast", "unwrap", "unwrap", 1,
     "`caller.connection_id().as_ref().unwrap()` is the right operand of `connection_id().is_none() || ..` (short-circuit)"),
    ("sos_server::handlers::Caller::connection_id", "may-panic", "index:index", 1,
     "`&s[..]` full-range slice of a String never panics"),
]


# Guards: an entry may name the comparison(s) that make its sites safe, as
# regexes over the rendered dominating conditions of the site
# (idioms.dominating_conditions: `T:Gt(len(packet), size_of())` ..); one regex
# for all sites of the entry or one per site. A site whose guard is no longer
# there — weakened, moved behind the access, taken on another buffer — is not
# covered by the review any more and is reported again.
_GUARDS = {
    ("sos_protocol::bindings::relay::RelayPacket::decode_split", "may-panic", "index:index"): [
        r"^T:Gt\(len\(packet\), size_of\(\)\)$",
        r"^T:Gt\(len\(packet\), Add\(size_of\(\), cast\(from_le_bytes\(",
        r"^T:Gt\(len\(packet\), Add\(size_of\(\), cast\(from_le_bytes\(",
    ],
    ("sos_protocol::bindings::relay::RelayPacket::decode_split", "unwrap", "unwrap"): r"^T:Gt\(len\(packet\), size_of\(\)\)$",
    ("sos_protocol::bindings::relay::RelayPacket::decode_split", "assert", "Overflow:Sub:usize"): r"^T:Gt\(len\(packet\), Add\(size_of\(\), cast\(from_le_bytes\(",
    ("<sos_core::account::AccountId as core::str::traits::FromStr>::from_str", "may-panic", "index:index"): r"^T:starts_with\(s, 0x\)",
    (FS_LOG + "rewind", "assert", "Overflow:Sub:usize"): r"^T:Gt\(len\(.*leaves.*\), len\(",
    (FS_LOG + "rewind", "assert", "Overflow:Sub:u64"): r"^T:Lt\(byte_length\(.*\), length\)",
    ("sos_core::file_identity::FileIdentity::read_slice", "assert", "BoundsCheck"): r"^T:Ge\(len\(buffer\), len\(identity\)\)",
    ("sos_filesystem::formats::file_identity::read_file_identity_bytes", "assert", "BoundsCheck"): r"^T:Ge\(len\(",
    ("sos_filesystem::formats::records::EventLogRecord::byte_length", "assert", "Overflow:Sub:u64"): r"^T:Ge\(self\.f0:offset\.f1:end, self\.f0:offset\.f0:start\)",
    ("sos_server::handlers::websocket::WebSocketAccount::broadcast", "unwrap", "unwrap"): r"^F:is_none\(connection_id\(",
}


def entries():
    return list(_TABLE)


def guard_for(root, kind, detail, idx):
    g = _GUARDS.get((root, kind, detail))
    if g is None:
        return None
    if isinstance(g, list):
        return g[idx] if idx < len(g) else g[-1]
    return g


def lookup(root, kind, detail, idx, conditions=None):
    """Reason the site is reviewed safe, or None. When the entry names a guard,
    `conditions` (rendered dominating conditions of the site) must contain it."""
    import re as _re
    for (r, k, d, n, reason) in _TABLE:
        if r == root and k == kind and d == detail and idx < n:
            g = guard_for(root, kind, detail, idx)
            if g is not None and conditions is not None and not any(_re.search(g, c) for c in conditions):
                return None
            return reason
    return None
