"""Flow-insensitive value-dependence graph over one logical function (root
item plus nested closures / async blocks).

Nodes are (body path, key) where key is a local number, or 'cK' for the K-th
captured variable of a closure/coroutine body (place `_1.fK` / `(*_1).fK`).
`dep[n]` = nodes n depends on. The graph over-approximates dependence, so
rules use it positively only ("X derives from Y").
"""
import re
from .cfg import place_local, place_proj, op_place, op_const


def _is_mut_ref_ty(ty):
    return ty.startswith("&mut ") or ty.startswith("std::pin::Pin<&mut ") or ty.startswith("*mut ")


class Slice:
    def __init__(self):
        self.nodes = set()
        self.calls = []     # (body, block, term)
        self.consts = []    # const operand dicts
        self.reads = []     # (body, place string)
        self.aggs = []      # (body, stmt)

    def calls_matching(self, rx):
        from .cfg import call_matches
        return [(b, i, t) for (b, i, t) in self.calls if call_matches(t, rx)]

    def reads_field(self, field, base_ty_rx=None):
        out = []
        for (b, p) in self.reads:
            proj = place_proj(p)
            for e in proj:
                if e.startswith("f") and ":" in e and e.split(":", 1)[1] == field:
                    if base_ty_rx is None:
                        out.append((b, p))
                    else:
                        ty = b.locals[place_local(p)]
                        if re.search(base_ty_rx, ty):
                            out.append((b, p))
                    break
        return out

    def has_local(self, body, local):
        return (body.path, local) in self.nodes

    def has_var(self, body, name):
        for (bp, key) in self.nodes:
            if bp != body.path:
                continue
            if isinstance(key, int):
                if body.vars.get(str(key)) == name:
                    return True
            elif key.startswith("c"):
                k = key[1:]
                for vk, vn in body.vars.items():
                    if vn == name and re.match(r"1(\.\*)?\.f%s:" % k, vk):
                        return True
        return False


class FlowGraph:
    def __init__(self, ws, fn, only_blocks=None):
        """only_blocks: optional {body path: set of block indices}; statements and
        terminators of other blocks of that body are ignored (used to ask what a
        value depends on the FIRST time a point is reached, i.e. without the
        definitions that sit behind a loop back edge)."""
        self.ws = ws
        self.fn = fn
        self.only_blocks = only_blocks or {}
        self.dep = {}
        self.call_of = {}     # node -> list of (body, block, term) producing it
        self.const_of = {}
        self.read_of = {}
        self.agg_of = {}
        self.bodies = {b.path: b for b in fn.bodies}
        self._tuples = {}
        for b in fn.bodies:
            self._build(b)

    # -- node helpers
    def key(self, body, place):
        l = place_local(place)
        if l == 1 and body.kind == "Closure":
            m = re.match(r"1(?:\.\*)?\.f(\d+):", place)
            if m:
                return (body.path, "c" + m.group(1))
        return (body.path, l)

    def _edge(self, dst, src):
        self.dep.setdefault(dst, set()).add(src)

    def _use_place(self, body, dst, place):
        src = self.key(body, place)
        # field-sensitive reads of locally built tuples: `(a, b).1` depends on b only
        tl = self._tuples.get(body.path)
        if tl and isinstance(src[1], int) and src[1] in tl:
            pr = place_proj(place)
            m = re.match(r"f(\d+):", pr[0]) if pr else None
            if m:
                src = (body.path, "t%d#%s" % (src[1], m.group(1)))
        self._edge(dst, src)
        if "." in place:
            self.read_of.setdefault(dst, []).append((body, place))
            for e in place_proj(place):
                if e.startswith("[") and e != "[]":
                    self._edge(dst, (body.path, int(e[1:-1])))
        # a capture node depends on the whole closure env
        if isinstance(src[1], str):
            self._edge(src, (body.path, 1))

    def _use_op(self, body, dst, op):
        p = op_place(op)
        if p is not None:
            self._use_place(body, dst, p)
        else:
            c = op_const(op)
            if c is not None:
                self.const_of.setdefault(dst, []).append(c)

    def _build(self, body):
        ws = self.ws
        # locals that are only ever assigned whole tuple aggregates
        tdefs, other = {}, set()
        for blk in body.blocks:
            for s_ in blk["s"]:
                d_ = s_.get("d")
                if d_ is None or s_["k"] == "dead":
                    continue
                l_ = place_local(d_)
                if s_["k"] == "agg" and s_.get("ak") == "tuple" and "." not in d_:
                    tdefs.setdefault(l_, 0)
                elif s_["k"] in ("ref", "refmut", "rawptr") and False:
                    pass
                else:
                    other.add(l_)
            t_ = blk.get("term")
            if t_ and t_["k"] == "call" and "dest" in t_:
                other.add(place_local(t_["dest"]))
        # a tuple whose address is taken mutably may change through the pointer
        for blk in body.blocks:
            for s_ in blk["s"]:
                if s_["k"] in ("refmut", "rawptr"):
                    other.add(place_local(s_["p"]))
        self._tuples[body.path] = {l_ for l_ in tdefs if l_ not in other}
        allowed = self.only_blocks.get(body.path)
        for bi, blk in enumerate(body.blocks):
            if blk.get("cleanup"):
                continue
            if allowed is not None and bi not in allowed:
                continue
            for s in blk["s"]:
                k = s["k"]
                if k in ("dead", "setdiscr"):
                    continue
                d = s["d"]
                dst = self.key(body, d)
                if k in ("use", "cast", "bin", "un", "repeat"):
                    for o in s["ops"]:
                        self._use_op(body, dst, o)
                elif k in ("ref", "refmut", "rawptr"):
                    self._use_place(body, dst, s["p"])
                    if k != "ref":
                        self._edge(self.key(body, s["p"]), dst)
                elif k == "discr":
                    self._use_place(body, dst, s["p"])
                elif k == "agg":
                    self.agg_of.setdefault(dst, []).append((body, s))
                    if s.get("ak") == "tuple" and isinstance(dst[1], int) and dst[1] in self._tuples.get(body.path, ()) and "." not in d:
                        for kk, o in enumerate(s["ops"]):
                            fn_ = (body.path, "t%d#%d" % (dst[1], kk))
                            self._use_op(body, fn_, o)
                            self._edge(dst, fn_)
                        continue
                    for o in s["ops"]:
                        self._use_op(body, dst, o)
                    if s["ak"] in ("closure", "coroutine", "coroutine_closure"):
                        nested = s.get("def")
                        if nested in self.bodies:
                            for i, o in enumerate(s["ops"]):
                                cap = (nested, "c%d" % i)
                                p = op_place(o)
                                if p is not None:
                                    src = self.key(body, p)
                                    self._edge(cap, src)
                                    # by-reference captures can be written
                                    l = place_local(p)
                                    if _is_mut_ref_ty(body.locals[l]):
                                        self._edge(src, cap)
                                else:
                                    c = op_const(o)
                                    if c is not None:
                                        self.const_of.setdefault(cap, []).append(c)
                            # what the closure returns flows into its value
                            self._edge(dst, (nested, 0))
                # writes through a pointer: `(*p).f = x` also changes p's pointee
            t = blk.get("term")
            if not t:
                continue
            if t["k"] == "call":
                dst = self.key(body, t["dest"])
                self.call_of.setdefault(dst, []).append((body, bi, t))
                arg_places = []
                for o in t["args"]:
                    self._use_op(body, dst, o)
                    p = op_place(o)
                    if p is not None:
                        arg_places.append(p)
                if "fop" in t:
                    self._use_op(body, dst, t["fop"])
                dl = place_local(t["dest"])
                dest_is_mut = _is_mut_ref_ty(body.locals[dl])
                for p in arg_places:
                    l = place_local(p)
                    if _is_mut_ref_ty(body.locals[l]):
                        n = self.key(body, p)
                        self.call_of.setdefault(n, []).append((body, bi, t))
                        for q in arg_places:
                            if q is not p:
                                self._edge(n, self.key(body, q))
                        # a &mut returned from a &mut argument (deref_mut,
                        # as_mut, iter_mut ..) aliases the argument's pointee
                        if dest_is_mut:
                            self._edge(n, dst)
            elif t["k"] == "yield":
                pass

    # -- queries
    def back(self, start_nodes, stop=None):
        """Backward slice. `stop(node)` marks nodes that are not entered
        (e.g. the shared reader/writer cursor every codec call mutates)."""
        sl = Slice()
        stack = [n for n in start_nodes if not (stop and stop(n))]
        seen = set(stack)
        while stack:
            n = stack.pop()
            for m in self.dep.get(n, ()):
                if m not in seen and not (stop and stop(m)):
                    seen.add(m)
                    stack.append(m)
        sl.nodes = seen
        for n in seen:
            sl.calls.extend(self.call_of.get(n, ()))
            sl.consts.extend(self.const_of.get(n, ()))
            sl.reads.extend(self.read_of.get(n, ()))
            sl.aggs.extend(self.agg_of.get(n, ()))
        return sl

    def back_from_operand(self, body, op, stop=None):
        """Slice of a call-argument operand; constants give an empty slice
        with the constant recorded."""
        p = op_place(op)
        if p is None:
            sl = Slice()
            c = op_const(op)
            if c is not None:
                sl.consts.append(c)
            return sl
        n = self.key(body, p)
        sl = self.back([n], stop=stop)
        if "." in p:
            sl.reads.append((body, p))
        return sl
