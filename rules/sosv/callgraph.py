"""Workspace call graph with one level of type context for generic code.

A node is (function root path, ctx) where ctx is a frozenset of workspace ADT
paths: the concrete type arguments of the most recent call that had any.
Inside a generic function a call dispatched on a type parameter
(`<T as Trait>::m`) or an external generic callback (`binary_stream::decode::<T>`)
is resolved to the impls for the ADTs in ctx when ctx is non-empty, and to
every workspace impl otherwise (class-hierarchy fallback).
"""
import re
from collections import deque
from . import cfg, idioms

# External generic functions that call back into trait impls of their type
# arguments: callee regex -> list of (trait path, method).
CALLBACKS = [
    (re.compile(r"^binary_stream::futures::decode$|^binary_stream::futures::decode::"), [("binary_stream::futures::Decodable", "decode"), ("core::default::Default", "default")]),
    (re.compile(r"^binary_stream::futures::encode$|^binary_stream::futures::encode::"), [("binary_stream::futures::Encodable", "encode")]),
    (re.compile(r"^serde_json::(de::)?from_(slice|str|reader|value)"), [("serde_core::de::Deserialize", "deserialize"), ("serde::de::Deserialize", "deserialize")]),
    (re.compile(r"^core::str::<impl str>::parse"), [("core::str::traits::FromStr", "from_str")]),
]
BLANKET = {
    "core::convert::TryInto::try_into": ("core::convert::TryFrom", "try_from"),
    "core::convert::Into::into": ("core::convert::From", "from"),
}
# Traits whose dyn/param calls are never expanded by class hierarchy (they
# would connect everything to everything).
NO_CHA = re.compile(r"^(core::future::|core::iter::|core::ops::function::|core::ops::drop::|core::fmt::|core::clone::|core::ops::deref::|futures_core::|futures_util::|core::cmp::|core::hash::|core::marker::|tokio::io::|core::borrow::|core::convert::AsRef|core::ops::try_trait)")


CONCRETE_EXTERNAL = frozenset({"<concrete external types>"})
_TOK = re.compile(r"(?<![:\w])([A-Z]\w*)(?![\w]*::)")


def _has_type_param(targs):
    for ta in targs:
        for m in _TOK.finditer(ta):
            name = m.group(1)
            # identifiers that are not path segments: type parameters / Self
            start = m.start(1)
            if start >= 2 and ta[start - 2:start] == "::":
                continue
            return True
    return False


def _base(ty):
    """Type string without references and generic arguments."""
    ty = ty.strip()
    while ty.startswith("&"):
        ty = ty[1:].strip()
        if ty.startswith("mut "):
            ty = ty[4:]
        if ty.startswith("'"):
            ty = ty.split(" ", 1)[1] if " " in ty else ty
    i = ty.find("<")
    return ty if i < 0 else ty[:i]


class CallGraph:
    def __init__(self, ws):
        self.ws = ws
        self.impl_index = {}    # (trait, method) -> [(self_adt, self_ty, trait_full, fn root)]
        for i in ws.impls:
            tr = i.get("trait")
            if not tr:
                continue
            for it in i["items"]:
                if it["path"] in ws.fns:
                    self.impl_index.setdefault((tr, it["name"]), []).append(
                        (i.get("self_adt"), i.get("self_ty"), i.get("trait_full") or "", it["path"]))
        self._edges_cache = {}

    def _impls(self, trait, method, ctx, self_ty=None, other=None):
        cands = self.impl_index.get((trait, method), [])
        if not cands:
            return []
        if self_ty is not None:
            base = _base(self_ty)
            ob = _base(other) if other else None
            exact = [c for c in cands if _base(c[1] or "") == base and (ob is None or ob in c[2])]
            if not exact and ob is not None:
                exact = [c for c in cands if _base(c[1] or "") == base]
            # a concrete receiver type with no workspace impl: external impl
            return [c[3] for c in exact]
        if ctx:
            hit = [c for c in cands if c[0] in ctx]
            if hit:
                return [c[3] for c in hit]
            # ctx is concrete and none of its types implements the trait here
            return []
        return [c[3] for c in cands]

    def call_targets(self, t, ctx):
        """Workspace function roots a call terminator may enter, and the ctx
        to continue with."""
        ws = self.ws
        adts = [a for a in t.get("targ_adts", []) if a in ws.adts]
        if adts:
            new_ctx = frozenset(adts)
        elif _has_type_param(t.get("targs") or []):
            new_ctx = ctx                   # still generic: keep the caller's binding
        else:
            new_ctx = CONCRETE_EXTERNAL     # concrete types, none from the workspace
        out = []
        res = t.get("resolved")
        callee = t.get("callee")
        disp = t.get("dispatch")
        rk = t.get("rkind")
        if res in ws.fns and rk != "virtual" and disp is None:
            out.append(res)
            # resolved to a default trait method body (generic Self): keep ctx
            return out, new_ctx
        if callee in BLANKET:
            tr, me = BLANKET[callee]
            targs = t.get("targs") or []
            if len(targs) >= 2:
                src, dst = targs[0], targs[1]
                out.extend(self._impls(tr, me, new_ctx, self_ty=dst.lstrip("&").strip(), other=src))
            return out, new_ctx
        trait = t.get("trait")
        if trait and (disp in ("dyn", "param") or rk == "virtual" or res is None or res == callee):
            if callee in ws.fns:
                out.append(callee)          # default method body
            if trait in ws.traits or not NO_CHA.search(trait):
                st = t.get("self_ty")
                sty = None
                if st and disp is None:
                    sty = st.lstrip("&").strip()
                # dyn dispatch: class hierarchy; param dispatch: the binding in ctx
                use_ctx = frozenset() if (disp == "dyn" or rk == "virtual") else new_ctx
                if disp == "param" and not use_ctx and trait not in ws.traits:
                    # `T::default()` etc. with T unbound: the candidate set is not
                    # known here; expanding to every impl of a std trait would be
                    # arbitrary. Callers that bind T are analysed with their ctx.
                    pass
                else:
                    out.extend(self._impls(trait, t.get("method"), use_ctx, self_ty=sty))
            return list(dict.fromkeys(out)), new_ctx
        if res in ws.fns:
            out.append(res)
            return out, new_ctx
        if callee in ws.fns:
            out.append(callee)
            return out, new_ctx
        # external callee
        name = callee or ""
        for rx, cbs in CALLBACKS:
            if rx.search(name):
                for tr, me in cbs:
                    out.extend(self._impls(tr, me, new_ctx))
        return list(dict.fromkeys(out)), new_ctx

    def reach(self, entries, stop=None, max_nodes=200000):
        """BFS from entry roots. Returns parent map {(root, ctx): (parent node, body path, block)}."""
        parent = {}
        dq = deque()
        for e in entries:
            n = (e, frozenset())
            if n not in parent:
                parent[n] = None
                dq.append(n)
        while dq and len(parent) < max_nodes:
            n = dq.popleft()
            root, ctx = n
            fn = self.ws.fns.get(root)
            if fn is None:
                continue
            if stop is not None and stop(fn):
                continue
            for b in fn.bodies:
                live = cfg.live_blocks(b)
                for i, t in b.calls():
                    if i not in live:
                        continue
                    tgts, nctx = self.call_targets(t, ctx)
                    for tg in tgts:
                        m = (tg, nctx)
                        if m not in parent:
                            parent[m] = (n, b.path, i)
                            dq.append(m)
        return parent

    @staticmethod
    def chain(parent, node, limit=12):
        out = []
        while node is not None and len(out) < limit:
            out.append(node[0])
            p = parent.get(node)
            node = p[0] if p else None
        return list(reversed(out))
