"""K12: compile-fail witnesses (thorough tier). Runs the doc-tests of
/verif/witness against /repo's current sources and turns each doc-test into a
rule instance."""
import os
import re
import shutil
import subprocess
from . import build

WDIR = os.path.join(build.VERIF, "witness")


def run(ctx, rule_id, title, wanted):
    """wanted: {struct name in witness/src/lib.rs: what it shows}"""
    r = ctx.rule(rule_id, title, floor=2 * len(wanted), kind="K12 compile-fail witness with compiling twin")
    try:
        shutil.copy(os.path.join(build.REPO, "Cargo.lock"), os.path.join(WDIR, "Cargo.lock"))
    except OSError:
        pass
    env = build.env_offline()
    env["CARGO_TARGET_DIR"] = os.path.join(build.SCRATCH, "target-witness")
    p = subprocess.run(["cargo", "+nightly", "test", "--doc", "--offline"], cwd=WDIR, env=env,
                       stdout=subprocess.PIPE, stderr=subprocess.STDOUT, text=True)
    out = p.stdout
    seen = {}
    for m in re.finditer(r"^test src/lib\.rs - (\w+) \(line (\d+)\)( - compile fail)? \.\.\. (ok|FAILED)", out, re.M):
        name, line, cf, res = m.group(1), m.group(2), bool(m.group(3)), m.group(4)
        seen.setdefault(name, []).append((cf, res, line))
    if not seen:
        r.violation("witness|build", "witness/src/lib.rs", "the witness crate did not build or ran no doc-tests: " + out[-400:].replace("\n", " "), work=0)
        return
    for name, what in wanted.items():
        for (cf, res, line) in seen.get(name, []):
            k = "%s|%s" % (name, "compile-fail" if cf else "twin")
            where = "witness/src/lib.rs:%s" % line
            if res == "ok":
                r.ok(k, where, ("does not type-check, as required: " if cf else "compiling twin builds: ") + what, work=1)
            elif cf:
                r.violation(k, where, "the violating use now COMPILES (or fails for another reason than the expected error): " + what, work=1)
            else:
                r.violation(k, where, "the compiling twin no longer builds: the witness is stale (paths or signatures moved)", work=1)
        if name not in seen:
            r.violation(name + "|missing", "witness/src/lib.rs", "witness doc-tests for %s did not run" % name, work=0)
