"""Path-language extraction of binary encoders/decoders from MIR (C14-R1).

For an Encodable::encode / Decodable::decode body the set of token sequences
along every successful path is computed (loops unrolled 0..2 times, await
loops removed, error exits pruned). A token is a primitive write/read
(`u8`, `u32`, `string`, `bytes`, ...) or a nested codec `N:<type>`; calls of
workspace helper functions that take the writer/reader are inlined.
Encoder and decoder of one type must produce the same set.
"""
import re
from . import cfg, idioms
from .idioms import cname

ENC = "binary_stream::futures::Encodable"
DEC = "binary_stream::futures::Decodable"
MAX_SET = 4000
BUDGET = 2

PRIM = re.compile(r"binary_stream::futures::Binary(Writer|Reader)::<.*>::(write|read)_(\w+)$")
IGNORED = {"seek", "stream_position", "flush", "len", "inner", "into_inner", "stream_length"}


# Helpers whose effect on the stream is summarised by hand (the loop bound is
# a compile-time constant the unrolling cannot see): callee -> tokens.
SUMMARIES = {
    "sos_core::file_identity::FileIdentity::read_identity": ("bytes",),   # reads identity.len() (4) single bytes == the `write_bytes(&IDENTITY)` of the encoder
}


class TooComplex(Exception):
    pass


def _ty_base(t):
    t = (t or "").strip()
    while t.startswith("&"):
        t = t[1:].strip()
        if t.startswith("mut "):
            t = t[4:]
    return t


def token_of(ws, t, side):
    """Token for a call terminator, ('inline', fn) for helpers, or None."""
    c = t.get("callee") or ""
    m = PRIM.search(c)
    if m:
        prim = m.group(3)
        if prim in ("bytes",):
            return "bytes"
        return prim
    tr = t.get("trait")
    if tr in (ENC, DEC) and t.get("method") in ("encode", "decode"):
        st = _ty_base(t.get("self_ty"))
        return "N:" + st
    n = cname(t)
    if n in IGNORED:
        return ("seek",) if n == "seek" else None
    tgt = t.get("resolved") or c
    if tgt in SUMMARIES or c in SUMMARIES:
        return ("summary", SUMMARIES.get(tgt) or SUMMARIES.get(c))
    f = ws.fns.get(tgt) or ws.fns.get(c)
    if f is not None:
        ins = " ".join(f.meta.get("inputs") or [])
        if ("BinaryWriter" in ins and side == "enc") or ("BinaryReader" in ins and side == "dec"):
            return ("inline", f)
    return None


def language(ws, fn, side, _stack=None, _memo=None, ann=None):
    """Set of token tuples of a codec function. With `ann` (block -> field
    name) primitive/nested tokens of the top-level body are suffixed
    `@field`."""
    _stack = _stack or []
    _memo = _memo if _memo is not None else {}
    mkey = (fn.root, ann is not None)
    if mkey in _memo:
        return _memo[mkey]
    if fn.root in _stack:
        return {("REC:" + idioms.last_seg(fn.root),)}
    body = cfg.code_body(ws, fn)
    sc = cfg.succs(body)
    live = cfg.live_blocks(body)
    exits = cfg.exits(body)
    err_blocks = {e.block for e in exits if e.kind == "err"}
    ok_blocks = {e.block for e in exits if e.kind in ("ok",)}
    # back edges by DFS
    order = {}
    back = set()
    state = {}
    stack = [(0, iter(sc[0]))]
    state[0] = 1
    while stack:
        b, it = stack[-1]
        adv = False
        for s in it:
            if state.get(s, 0) == 0:
                state[s] = 1
                stack.append((s, iter(sc[s])))
                adv = True
                break
            elif state.get(s) == 1:
                back.add((b, s))
        if not adv:
            state[b] = 2
            stack.pop()
    toks = {}
    for i in live:
        t = body.blocks[i].get("term")
        if t and t["k"] == "call" and not idioms.is_noise(t) and not idioms.is_logging(t):
            tk = token_of(ws, t, side)
            if tk is not None:
                if ann is not None and isinstance(tk, str) and ann.get(i):
                    tk = tk + "@" + ann[i]
                toks[i] = tk
    memo = {}

    def lang(b, k, seeking):
        key = (b, k, seeking)
        if key in memo:
            return memo[key]
        memo[key] = set()  # cycle guard (should not happen in the unrolled DAG)
        t = body.blocks[b].get("term") or {}
        if b in err_blocks:
            memo[key] = set()
            return memo[key]
        here = []
        nseek = seeking
        tk = toks.get(b)
        pre_sets = None
        if tk is not None:
            if tk == ("seek",):
                nseek = not seeking if side == "enc" else seeking
            elif isinstance(tk, tuple) and tk[0] == "inline":
                pre_sets = language(ws, tk[1], side, _stack + [fn.root], _memo)
            elif isinstance(tk, tuple) and tk[0] == "summary":
                here = list(tk[1])
            else:
                if not (side == "enc" and seeking):
                    here = [tk]
        if t.get("k") == "return" or b in ok_blocks and not sc[b]:
            res = {tuple(here)}
            memo[key] = res
            return res
        if t.get("k") in ("unreachable", "resume", "terminate"):
            memo[key] = set()
            return memo[key]
        if t.get("k") == "call" and "t" not in t:
            memo[key] = set()  # diverging call (panic)
            return memo[key]
        out = set()
        for s in sc[b]:
            if t.get("k") == "yield":
                continue  # a pending future: the await loop is not a data loop
            nk = k
            if (b, s) in back:
                if k >= BUDGET:
                    continue
                nk = k + 1
            for tail in lang(s, nk, nseek):
                if pre_sets is not None:
                    for p in pre_sets:
                        out.add(p + tail)
                        if len(out) > MAX_SET:
                            raise TooComplex(fn.root)
                else:
                    out.add(tuple(here) + tail)
                    if len(out) > MAX_SET:
                        raise TooComplex(fn.root)
        memo[key] = out
        return out

    import sys
    old = sys.getrecursionlimit()
    sys.setrecursionlimit(max(old, 20000))
    try:
        res = lang(0, 0, False)
    finally:
        sys.setrecursionlimit(old)
    _memo[mkey] = res
    return res


def normalise(seq):
    out = []
    for t in seq:
        fld = ""
        if "@" in t:
            t, fld = t.rsplit("@", 1)
            fld = "@" + fld
        if t.startswith("N:"):
            t = "N:" + re.sub(r"<.*", "", t[2:])
        out.append(t + fld)
    return tuple(out)


def field_annotations(ws, fn, side, self_adt):
    """block -> the single field of Self (or of the matched variant) whose
    value a write takes / a read is stored into; None when not unique."""
    from .flow import FlowGraph
    adt = ws.adts.get(self_adt)
    if not adt:
        return {}
    names = set()
    for v in adt["variants"]:
        for f in v["fields"]:
            names.add(f["name"])
    short = self_adt.rsplit("::", 1)[-1]
    body = cfg.code_body(ws, fn)
    fg = FlowGraph(ws, fn)
    out = {}
    bodies = {b.path: b for b in fn.bodies}

    def stop(node):
        # the stream cursor is shared by every read/write: do not flow through it
        b = bodies.get(node[0])
        if b is None or not isinstance(node[1], int):
            return False
        return "Binary" in b.locals[node[1]] and ("BinaryReader" in b.locals[node[1]] or "BinaryWriter" in b.locals[node[1]])

    def self_fields(reads):
        got = set()
        for (b, p) in reads:
            ty = b.locals[cfg.place_local(p)]
            if short not in ty and not (cfg.place_local(p) == 1 and b.kind == "Closure"):
                continue
            for e in cfg.place_proj(p):
                if e.startswith("f") and ":" in e:
                    n = e.split(":", 1)[1]
                    if n in names:
                        got.add(n)
                        break
        return got
    live = cfg.live_blocks(body)
    calls = [(i, body.blocks[i]["term"]) for i in sorted(live) if body.blocks[i].get("term", {}).get("k") == "call"]
    if side == "enc":
        for i, t in calls:
            tk = token_of(ws, t, side)
            if not isinstance(tk, str):
                continue
            arg = t["args"][0] if tk.startswith("N:") else t["args"][-1]
            sl = fg.back_from_operand(body, arg, stop=stop)
            fs = self_fields(sl.reads)
            if len(fs) == 1:
                out[i] = next(iter(fs))
    else:
        read_blocks = {i for i, t in calls if isinstance(token_of(ws, t, side), str)}
        hits = {}
        # (a) nested decode straight into a field: receiver is &mut self.f
        for i, t in calls:
            tk = token_of(ws, t, side)
            if isinstance(tk, str) and tk.startswith("N:"):
                sl = fg.back_from_operand(body, t["args"][0], stop=stop)
                fs = self_fields(sl.reads)
                if len(fs) == 1:
                    hits.setdefault(i, set()).update(fs)
        # (b) assignments to self.f and aggregates of Self
        for j in sorted(live):
            for st in body.blocks[j]["s"]:
                d = st.get("d")
                targets = []
                if st.get("k") == "agg" and st.get("adt") == self_adt:
                    for fname, op in zip(st.get("fields") or [], st.get("ops") or []):
                        targets.append((fname, op))
                elif d and "." in d and st.get("k") in ("use", "cast", "agg"):
                    fs = self_fields([(body, d)])
                    if len(fs) == 1:
                        for op in st.get("ops", []):
                            targets.append((next(iter(fs)), op))
                for fname, op in targets:
                    if fname not in names:
                        continue
                    sl = fg.back_from_operand(body, op, stop=stop)
                    src = {ci for (cb, ci, _ct) in sl.calls if cb is body and ci in read_blocks}
                    if len(src) == 1:
                        hits.setdefault(next(iter(src)), set()).add(fname)
        for i, fs in hits.items():
            if len(fs) == 1:
                out[i] = next(iter(fs))
    return out


def compare_fields(ws, enc_fn, dec_fn, self_adt):
    """Field-order agreement: [(encoder sequence, decoder sequence)] pairs of
    equal shape whose field annotations conflict at some position."""
    ea = field_annotations(ws, enc_fn, "enc", self_adt)
    da = field_annotations(ws, dec_fn, "dec", self_adt)
    e = {normalise(s) for s in language(ws, enc_fn, "enc", ann=ea)}
    d = {normalise(s) for s in language(ws, dec_fn, "dec", ann=da)}

    def split(seq):
        return [tuple(t.rsplit("@", 1)) if "@" in t else (t, None) for t in seq]
    conflicts = []
    annotated = 0
    dl = [split(x) for x in d]
    for es in e:
        se = split(es)
        same_shape = [sd for sd in dl if len(sd) == len(se) and all(a[0] == b[0] for a, b in zip(se, sd))]
        if not same_shape:
            continue
        annotated += sum(1 for a in se if a[1])
        ok = any(all(a[1] is None or b[1] is None or a[1] == b[1] for a, b in zip(se, sd)) for sd in same_shape)
        if not ok:
            sd = same_shape[0]
            pos = [(k, a[0], a[1], b[1]) for k, (a, b) in enumerate(zip(se, sd)) if a[1] and b[1] and a[1] != b[1]]
            conflicts.append(pos)
    return conflicts, annotated, len(ea), len(da)


def _codec_index(ws):
    encs, decs = {}, {}
    for i in ws.impls_of(ENC):
        for it in i["items"]:
            if it["name"] == "encode" and it["path"] in ws.fns:
                encs[re.sub(r"<.*", "", i["self_ty"])] = ws.fns[it["path"]]
    for i in ws.impls_of(DEC):
        for it in i["items"]:
            if it["name"] == "decode" and it["path"] in ws.fns:
                decs[re.sub(r"<.*", "", i["self_ty"])] = ws.fns[it["path"]]
    return encs, decs


def _expand(ws, seqs, table, side, depth=2):
    """Replace nested-codec tokens of workspace types by that codec's own
    language (used only on the sequences the two sides disagree on: one side
    may call the nested impl where the other reads/writes the parts inline)."""
    out = set()
    for s in seqs:
        alts = [()]
        for t in s:
            if t.startswith("N:") and t[2:] in table and depth > 0:
                sub = {normalise(x) for x in language(ws, table[t[2:]], side)}
                sub = _expand(ws, sub, table, side, depth - 1)
                alts = [a + b for a in alts for b in sub]
            else:
                alts = [a + (t,) for a in alts]
            if len(alts) > MAX_SET:
                raise TooComplex("expansion")
        out |= set(alts)
    return out


def compare(ws, enc_fn, dec_fn):
    """(equal?, only_in_encoder, only_in_decoder, sizes) or raises TooComplex."""
    e = {normalise(s) for s in language(ws, enc_fn, "enc")}
    d = {normalise(s) for s in language(ws, dec_fn, "dec")}
    if e != d:
        encs, decs = _codec_index(ws)
        oe, od = e - d, d - e
        common = e & d
        e2 = _expand(ws, oe, encs, "enc") | common
        d2 = _expand(ws, od, decs, "dec") | common
        if e2 == d2 or (e2 - common) == (d2 - common):
            return True, [], [], (len(e), len(d))
        return False, sorted(e2 - d2), sorted(d2 - e2), (len(e), len(d))
    return True, [], [], (len(e), len(d))
