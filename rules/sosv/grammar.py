"""Path-language extraction of binary encoders/decoders from MIR (C14-R1).

For an Encodable::encode / Decodable::decode body the set of token sequences
along every successful path is computed (loops unrolled 0..2 times, await
loops removed, error exits pruned). A token is a primitive write/read
(`u8`, `u32`, `string`, `bytes`, ...) or a nested codec `N:<type>`; calls of
workspace helper functions that take the writer/reader are inlined.
Encoder and decoder of one type must produce the same set.
"""
import re
from . import cfg, idioms
from .idioms import cname

ENC = "binary_stream::futures::Encodable"
DEC = "binary_stream::futures::Decodable"
MAX_SET = 4000
BUDGET = 2

PRIM = re.compile(r"binary_stream::futures::Binary(Writer|Reader)::<.*>::(write|read)_(\w+)$")
IGNORED = {"seek", "stream_position", "flush", "len", "inner", "into_inner", "stream_length"}


# Helpers whose effect on the stream is summarised by hand (the loop bound is
# a compile-time constant the unrolling cannot see): callee -> tokens.
SUMMARIES = {
    "sos_core::file_identity::FileIdentity::read_identity": ("bytes",),   # reads identity.len() (4) single bytes == the `write_bytes(&IDENTITY)` of the encoder
}


class TooComplex(Exception):
    pass


def _ty_base(t):
    t = (t or "").strip()
    while t.startswith("&"):
        t = t[1:].strip()
        if t.startswith("mut "):
            t = t[4:]
    return t


def token_of(ws, t, side):
    """Token for a call terminator, ('inline', fn) for helpers, or None."""
    c = t.get("callee") or ""
    m = PRIM.search(c)
    if m:
        prim = m.group(3)
        if prim in ("bytes",):
            return "bytes"
        return prim
    tr = t.get("trait")
    if tr in (ENC, DEC) and t.get("method") in ("encode", "decode"):
        st = _ty_base(t.get("self_ty"))
        return "N:" + st
    n = cname(t)
    if n in IGNORED:
        return ("seek",) if n == "seek" else None
    tgt = t.get("resolved") or c
    if tgt in SUMMARIES or c in SUMMARIES:
        return ("summary", SUMMARIES.get(tgt) or SUMMARIES.get(c))
    f = ws.fns.get(tgt) or ws.fns.get(c)
    if f is not None:
        ins = " ".join(f.meta.get("inputs") or [])
        if ("BinaryWriter" in ins and side == "enc") or ("BinaryReader" in ins and side == "dec"):
            return ("inline", f)
    return None


def language(ws, fn, side, _stack=None, _memo=None):
    """Set of token tuples of a codec function."""
    _stack = _stack or []
    _memo = _memo if _memo is not None else {}
    if fn.root in _memo:
        return _memo[fn.root]
    if fn.root in _stack:
        return {("REC:" + idioms.last_seg(fn.root),)}
    body = cfg.code_body(ws, fn)
    sc = cfg.succs(body)
    live = cfg.live_blocks(body)
    exits = cfg.exits(body)
    err_blocks = {e.block for e in exits if e.kind == "err"}
    ok_blocks = {e.block for e in exits if e.kind in ("ok",)}
    # back edges by DFS
    order = {}
    back = set()
    state = {}
    stack = [(0, iter(sc[0]))]
    state[0] = 1
    while stack:
        b, it = stack[-1]
        adv = False
        for s in it:
            if state.get(s, 0) == 0:
                state[s] = 1
                stack.append((s, iter(sc[s])))
                adv = True
                break
            elif state.get(s) == 1:
                back.add((b, s))
        if not adv:
            state[b] = 2
            stack.pop()
    toks = {}
    for i in live:
        t = body.blocks[i].get("term")
        if t and t["k"] == "call" and not idioms.is_noise(t) and not idioms.is_logging(t):
            tk = token_of(ws, t, side)
            if tk is not None:
                toks[i] = tk
    memo = {}

    def lang(b, k, seeking):
        key = (b, k, seeking)
        if key in memo:
            return memo[key]
        memo[key] = set()  # cycle guard (should not happen in the unrolled DAG)
        t = body.blocks[b].get("term") or {}
        if b in err_blocks:
            memo[key] = set()
            return memo[key]
        here = []
        nseek = seeking
        tk = toks.get(b)
        pre_sets = None
        if tk is not None:
            if tk == ("seek",):
                nseek = not seeking if side == "enc" else seeking
            elif isinstance(tk, tuple) and tk[0] == "inline":
                pre_sets = language(ws, tk[1], side, _stack + [fn.root], _memo)
            elif isinstance(tk, tuple) and tk[0] == "summary":
                here = list(tk[1])
            else:
                if not (side == "enc" and seeking):
                    here = [tk]
        if t.get("k") == "return" or b in ok_blocks and not sc[b]:
            res = {tuple(here)}
            memo[key] = res
            return res
        if t.get("k") in ("unreachable", "resume", "terminate"):
            memo[key] = set()
            return memo[key]
        if t.get("k") == "call" and "t" not in t:
            memo[key] = set()  # diverging call (panic)
            return memo[key]
        out = set()
        for s in sc[b]:
            if t.get("k") == "yield":
                continue  # a pending future: the await loop is not a data loop
            nk = k
            if (b, s) in back:
                if k >= BUDGET:
                    continue
                nk = k + 1
            for tail in lang(s, nk, nseek):
                if pre_sets is not None:
                    for p in pre_sets:
                        out.add(p + tail)
                        if len(out) > MAX_SET:
                            raise TooComplex(fn.root)
                else:
                    out.add(tuple(here) + tail)
                    if len(out) > MAX_SET:
                        raise TooComplex(fn.root)
        memo[key] = out
        return out

    import sys
    old = sys.getrecursionlimit()
    sys.setrecursionlimit(max(old, 20000))
    try:
        res = lang(0, 0, False)
    finally:
        sys.setrecursionlimit(old)
    _memo[fn.root] = res
    return res


def normalise(seq):
    out = []
    for t in seq:
        if t.startswith("N:"):
            t = "N:" + re.sub(r"<.*", "", t[2:])
        out.append(t)
    return tuple(out)


def _codec_index(ws):
    encs, decs = {}, {}
    for i in ws.impls_of(ENC):
        for it in i["items"]:
            if it["name"] == "encode" and it["path"] in ws.fns:
                encs[re.sub(r"<.*", "", i["self_ty"])] = ws.fns[it["path"]]
    for i in ws.impls_of(DEC):
        for it in i["items"]:
            if it["name"] == "decode" and it["path"] in ws.fns:
                decs[re.sub(r"<.*", "", i["self_ty"])] = ws.fns[it["path"]]
    return encs, decs


def _expand(ws, seqs, table, side, depth=2):
    """Replace nested-codec tokens of workspace types by that codec's own
    language (used only on the sequences the two sides disagree on: one side
    may call the nested impl where the other reads/writes the parts inline)."""
    out = set()
    for s in seqs:
        alts = [()]
        for t in s:
            if t.startswith("N:") and t[2:] in table and depth > 0:
                sub = {normalise(x) for x in language(ws, table[t[2:]], side)}
                sub = _expand(ws, sub, table, side, depth - 1)
                alts = [a + b for a in alts for b in sub]
            else:
                alts = [a + (t,) for a in alts]
            if len(alts) > MAX_SET:
                raise TooComplex("expansion")
        out |= set(alts)
    return out


def compare(ws, enc_fn, dec_fn):
    """(equal?, only_in_encoder, only_in_decoder, sizes) or raises TooComplex."""
    e = {normalise(s) for s in language(ws, enc_fn, "enc")}
    d = {normalise(s) for s in language(ws, dec_fn, "dec")}
    if e != d:
        encs, decs = _codec_index(ws)
        oe, od = e - d, d - e
        common = e & d
        e2 = _expand(ws, oe, encs, "enc") | common
        d2 = _expand(ws, od, decs, "dec") | common
        if e2 == d2 or (e2 - common) == (d2 - common):
            return True, [], [], (len(e), len(d))
        return False, sorted(e2 - d2), sorted(d2 - e2), (len(e), len(d))
    return True, [], [], (len(e), len(d))
