"""Rule results, known findings, evidence and VIOLATION output."""
import json
import os
import sys
import time

VERIF = os.path.dirname(os.path.dirname(os.path.dirname(os.path.abspath(__file__))))


class Rule:
    def __init__(self, ctx, rid, title, floor=0, kind=""):
        self.ctx = ctx
        self.id = rid
        self.title = title
        self.floor = floor
        self.kind = kind
        self.instances = []   # dicts
        self.notes = []

    def _add(self, verdict, key, where, what, work, extra):
        inst = {"rule": self.id, "key": "%s|%s" % (self.id, key), "where": where,
                "verdict": verdict, "what": what, "work": work}
        if extra:
            inst.update(extra)
        self.instances.append(inst)
        return inst

    def ok(self, key, where, what="", work=1, **extra):
        return self._add("ok", key, where, what, work, extra)

    def violation(self, key, where, what, work=1, **extra):
        return self._add("violation", key, where, what, work, extra)

    def anchor_missing(self, what):
        if self.ctx.config != "workspace":
            # feature-reduced configurations legitimately lack some anchors
            self.note("anchor not present in configuration %s: %s" % (self.ctx.config, what))
            return None
        return self._add("violation", "anchor-missing:" + what, "-",
                         "anchor missing: " + what + " (rule cannot be evaluated; failing closed)", 0, None)

    def note(self, s):
        self.notes.append(s)


class Ctx:
    def __init__(self, prop, tier, ws, build_info):
        self.prop = prop
        self.tier = tier
        self.ws = ws
        self.build_info = build_info
        self.rules = []
        self.t0 = time.time()
        self.assumptions = []
        self.trusted = []
        self.explanation = ""
        self.config = "workspace"
        self.configs_analysed = ["workspace"]

    def rule(self, rid, title, floor=0, kind=""):
        if self.config != "workspace":
            rid = "%s@%s" % (rid, self.config)
            floor = 0
        r = Rule(self, rid, title, floor, kind)
        self.rules.append(r)
        return r

    def trust(self, *items):
        for i in items:
            if i not in self.trusted:
                self.trusted.append(i)

    def assume(self, *items):
        for i in items:
            if i not in self.assumptions:
                self.assumptions.append(i)


def _strip_cfg(key):
    rule, _, rest = key.partition("|")
    return rule.split("@", 1)[0] + "|" + rest


def load_known():
    p = os.path.join(VERIF, "known_findings.json")
    if not os.path.exists(p):
        return []
    return json.load(open(p)).get("findings", [])


def finish(ctx, cmd):
    """Apply floors and known findings, print, write evidence; return exit code."""
    prop = ctx.prop
    known = [k for k in load_known() if k.get("property") == prop and k.get("status") == "known"]
    known_keys = {k["key"]: k for k in known}
    out_dir = os.path.join(VERIF, "out", prop)
    os.makedirs(out_dir, exist_ok=True)
    for f in os.listdir(out_dir):
        try:
            os.unlink(os.path.join(out_dir, f))
        except OSError:
            pass
    for r in ctx.rules:
        n = len([i for i in r.instances if not i["key"].split("|", 1)[1].startswith("anchor-missing:")])
        if n < r.floor:
            r._add("violation", "floor", "-",
                   "rule matched %d instance(s), below the floor of %d counted on the pinned tree: an anchor moved or disappeared (failing closed)" % (n, r.floor), 0, None)
    violations = []
    known_hit = []
    total = 0
    discharged = 0
    nontrivial = set()
    for r in ctx.rules:
        for i in r.instances:
            total += 1
            if i["work"] and i["work"] > 0:
                nontrivial.add(i["key"])
            if i["verdict"] == "ok":
                discharged += 1
            elif i["key"] in known_keys or _strip_cfg(i["key"]) in known_keys:
                i["verdict"] = "known"
                known_hit.append(i)
            else:
                violations.append(i)
    for i in known_hit:
        print("KNOWN-FINDING: property=%s %s %s — %s" % (prop, i["key"], i["where"], i["what"]))
    nrep = 0
    for i in violations:
        nrep += 1
        path = os.path.join(out_dir, "%s-%d.json" % (i["rule"], nrep))
        with open(path, "w") as fh:
            json.dump(i, fh, indent=1, default=str)
        print("%s: %s: %s [%s]" % (i["where"], i["rule"], i["what"], i["key"]))
        if i.get("witness"):
            print("    witness: %s" % (i["witness"],))
        print("VIOLATION property=%s replay=%s" % (prop, path))
    with open(os.path.join(out_dir, "instances.jsonl"), "w") as fh:
        for r in ctx.rules:
            for i in r.instances:
                fh.write(json.dumps({k: i.get(k) for k in ("rule", "key", "where", "verdict", "what")}, default=str) + "\n")
    wall = time.time() - ctx.t0
    samples = []
    for r in ctx.rules:
        for i in r.instances[:3]:
            samples.append({k: i[k] for k in ("rule", "key", "where", "verdict", "what")})
    ev = {
        "property_id": prop,
        "tier": ctx.tier,
        "seed": int(os.environ.get("VERIF_SEED", "0") or 0),
        "level": "other",
        "coverage": {
            "explanation": ctx.explanation,
            "obligations": total,
            "discharged": discharged,
            "evaluations": total,
            "distinct_nontrivial": len(nontrivial),
            "rule": "one evaluation = one rule instance (function, call site, match arm, statement, type) discovered in the resolved program; non-trivial = the verdict required a non-empty CFG/flow/closure computation (work>0); distinct by finding key",
            "samples": samples,
            "checker_cmd": cmd,
            "trusted_base": ctx.trusted,
            "exhaustive": True,
            "analysed": dict(ctx.ws.stats, **{k: v for k, v in ctx.build_info.items()}),
            "configurations": ctx.configs_analysed,
            "rules": [{"id": r.id, "title": r.title, "kind": r.kind, "floor": r.floor,
                       "instances": len(r.instances),
                       "violations": len([i for i in r.instances if i["verdict"] == "violation"]),
                       "known": len([i for i in r.instances if i["verdict"] == "known"]),
                       "notes": r.notes} for r in ctx.rules],
            "known_findings_reported": [i["key"] for i in known_hit],
        },
        "assumptions": ctx.assumptions,
        "wall_s": round(wall, 2),
        "violations": len(violations),
    }
    evdir = os.path.join(VERIF, "evidence")
    os.makedirs(evdir, exist_ok=True)
    tmp = os.path.join(evdir, ".%s.json.tmp%d" % (prop, os.getpid()))
    with open(tmp, "w") as fh:
        json.dump(ev, fh, indent=1)
    os.replace(tmp, os.path.join(evdir, "%s.json" % prop))
    print("[%s] tier=%s rules=%d instances=%d discharged=%d known=%d violations=%d wall=%.1fs" % (
        prop, ctx.tier, len(ctx.rules), total, discharged, len(known_hit), len(violations), wall))
    return 1 if violations else 0
